import atexit
import hashlib
import json
import os
import shutil
import signal
import subprocess
import sys
import tempfile
import time

VERIF = os.path.dirname(os.path.dirname(os.path.abspath(__file__)))
REPO = os.environ.get('VERIF_REPO', '/repo')
BUILD = os.path.join(VERIF, '.build')
# development aid: seed evaluation against a scratch worktree writes its evidence / replays elsewhere
OUT = os.environ.get('VERIF_EVIDENCE_DIR') or VERIF
CACHE = os.path.join(BUILD, 'cache')
TINY_DEPS = os.path.join(BUILD, 'tinydep', 'debug', 'deps')

_scratch = None


def scratch():
    """Fresh scratch directory for this process; removed (with build output) at exit."""
    global _scratch
    if _scratch is None:
        base = os.environ.get('TMPDIR', '/tmp')
        _scratch = tempfile.mkdtemp(prefix='vf.', dir=base)
        atexit.register(lambda: shutil.rmtree(_scratch, ignore_errors=True))
    return _scratch


def sha(*parts):
    h = hashlib.sha256()
    for p in parts:
        if isinstance(p, str):
            p = p.encode()
        h.update(p)
        h.update(b'\0')
    return h.hexdigest()


def ensure_setup():
    import glob
    if not glob.glob(os.path.join(TINY_DEPS, 'libtinystr-*.rlib')):
        subprocess.run([os.path.join(VERIF, 'setup.sh')], check=True, stdout=subprocess.DEVNULL,
                       stderr=subprocess.DEVNULL)
    os.makedirs(CACHE, exist_ok=True)


def tinystr_rlib():
    import glob
    r = sorted(glob.glob(os.path.join(TINY_DEPS, 'libtinystr-*.rlib')))
    if not r:
        raise RuntimeError('tinystr rlib missing; run ./setup.sh')
    return r[0]


def copy_repo(dst):
    """Copy /repo's current working tree (without target/ and .git) to dst."""
    subprocess.run(['rsync', '-a', '--delete', '--exclude', 'target', '--exclude', '.git', REPO + '/', dst + '/'],
                   check=True)
    return dst


def run(cmd, cwd=None, timeout=None, env=None, mem_gb=None):
    """Run cmd in its own process group; on timeout kill the whole group (cbmc children included)."""
    e = dict(os.environ)
    e['CARGO_NET_OFFLINE'] = 'true'
    if env:
        e.update(env)
    pre = None
    if mem_gb:
        import resource

        def pre():
            os.setsid()
            lim = int(mem_gb * (1 << 30))
            resource.setrlimit(resource.RLIMIT_AS, (lim, lim))
    t0 = time.time()
    p = subprocess.Popen(cmd, cwd=cwd, env=e, stdout=subprocess.PIPE, stderr=subprocess.PIPE, text=True,
                         preexec_fn=pre or os.setsid)
    try:
        out, err = p.communicate(timeout=timeout)
        to = False
    except subprocess.TimeoutExpired:
        try:
            os.killpg(p.pid, signal.SIGKILL)
        except ProcessLookupError:
            pass
        out, err = p.communicate()
        to = True
    return {'rc': p.returncode, 'out': out, 'err': err, 'timeout': to, 'wall_s': time.time() - t0}


def cache_get(key):
    if os.environ.get('VERIF_NO_CACHE'):
        return None
    p = os.path.join(CACHE, key + '.json')
    if os.path.exists(p):
        try:
            return json.load(open(p))
        except Exception:
            return None
    return None


def cache_put(key, val):
    os.makedirs(CACHE, exist_ok=True)
    tmp = os.path.join(CACHE, key + '.json.tmp%d' % os.getpid())
    json.dump(val, open(tmp, 'w'))
    os.replace(tmp, os.path.join(CACHE, key + '.json'))


def tool_versions():
    k = cache_get('toolversions')
    if k:
        return k
    v = {}
    try:
        v['verus'] = subprocess.run(['verus', '--version'], capture_output=True, text=True).stdout.strip().replace('\n', ' ')
        v['kani'] = subprocess.run(['cargo', 'kani', '--version'], capture_output=True, text=True).stdout.strip()
        v['cbmc'] = subprocess.run(['cbmc', '--version'], capture_output=True, text=True).stdout.strip()
    except Exception as ex:  # pragma: no cover
        v['error'] = str(ex)
    cache_put('toolversions', v)
    return v
