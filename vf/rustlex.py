"""Minimal Rust lexer + item/fn/loop locator used by the mechanical extractor.

Only what the extractor needs: it never re-prints tokens, it only computes byte
offsets into the original text, so everything that is copied is copied byte for byte.
"""
import re

IDENT_RE = re.compile(r'[A-Za-z_][A-Za-z0-9_]*')


class Tok:
    __slots__ = ('kind', 'text', 'start', 'end')

    def __init__(self, kind, text, start, end):
        self.kind, self.text, self.start, self.end = kind, text, start, end

    def __repr__(self):
        return 'Tok(%s,%r,%d)' % (self.kind, self.text, self.start)


def lex(src):
    """Return list of Tok.  kinds: ident, punct, str, char, lifetime, num, comment, doc."""
    toks = []
    i, n = 0, len(src)
    while i < n:
        c = src[i]
        if c.isspace():
            i += 1
            continue
        if src.startswith('//', i):
            j = src.find('\n', i)
            if j < 0:
                j = n
            text = src[i:j]
            kind = 'doc' if (text.startswith('///') and not text.startswith('////')) or text.startswith('//!') else 'comment'
            toks.append(Tok(kind, text, i, j))
            i = j
            continue
        if src.startswith('/*', i):
            depth, j = 1, i + 2
            while j < n and depth:
                if src.startswith('/*', j):
                    depth += 1
                    j += 2
                elif src.startswith('*/', j):
                    depth -= 1
                    j += 2
                else:
                    j += 1
            toks.append(Tok('comment', src[i:j], i, j))
            i = j
            continue
        # raw strings / byte strings
        m = re.match(r'(b|c)?r(#*)"', src[i:i + 40])
        if m and (i == 0 or not (src[i - 1].isalnum() or src[i - 1] == '_')):
            hashes = m.group(2)
            close = '"' + hashes
            j = src.find(close, i + m.end())
            j = n if j < 0 else j + len(close)
            toks.append(Tok('str', src[i:j], i, j))
            i = j
            continue
        if c == '"' or (c in 'bc' and i + 1 < n and src[i + 1] == '"'):
            j = i + (1 if c == '"' else 2)
            while j < n and src[j] != '"':
                j += 2 if src[j] == '\\' else 1
            j += 1
            toks.append(Tok('str', src[i:j], i, j))
            i = j
            continue
        if c == "'" or (c == 'b' and i + 1 < n and src[i + 1] == "'"):
            k = i + (1 if c == "'" else 2)
            # char literal or lifetime?
            if c == "'":
                m2 = re.match(r"'([A-Za-z_][A-Za-z0-9_]*)(?!')", src[i:i + 64])
                if m2:
                    j = i + m2.end()
                    toks.append(Tok('lifetime', src[i:j], i, j))
                    i = j
                    continue
            j = k
            while j < n and src[j] != "'":
                j += 2 if src[j] == '\\' else 1
            j += 1
            toks.append(Tok('char', src[i:j], i, j))
            i = j
            continue
        m = IDENT_RE.match(src, i)
        if m:
            toks.append(Tok('ident', m.group(0), i, m.end()))
            i = m.end()
            continue
        if c.isdigit():
            m = re.match(r'[0-9][0-9A-Za-z_]*(\.[0-9][0-9A-Za-z_]*)?', src[i:])
            j = i + m.end()
            toks.append(Tok('num', src[i:j], i, j))
            i = j
            continue
        toks.append(Tok('punct', c, i, i + 1))
        i += 1
    return toks


OPEN = {'(': ')', '[': ']', '{': '}'}
CLOSE = {')', ']', '}'}


def code_toks(toks):
    return [t for t in toks if t.kind not in ('comment', 'doc')]


def match_close(toks, idx):
    """toks[idx] is an opening bracket; return index of its matching close."""
    depth = 0
    for j in range(idx, len(toks)):
        t = toks[j]
        if t.kind == 'punct':
            if t.text in OPEN:
                depth += 1
            elif t.text in CLOSE:
                depth -= 1
                if depth == 0:
                    return j
    raise ValueError('unbalanced brackets from token %r' % (toks[idx],))


def find_body_open(toks, idx):
    """From toks[idx] (after a fn name / loop keyword) find the `{` that opens the body:
    the first `{` at paren/bracket depth 0.  Returns None if a `;` comes first (no body)."""
    depth = 0
    j = idx
    while j < len(toks):
        t = toks[j]
        if t.kind == 'punct':
            if t.text in '([':
                depth += 1
            elif t.text in ')]':
                depth -= 1
            elif t.text == '{' and depth == 0:
                return j
            elif t.text == ';' and depth == 0:
                return None
        j += 1
    return None
