"""Regenerates /verif/MANIFEST.json from vf/props.py (python3 -m vf.manifest)."""
import json
import os

from . import props, common

LEVEL_TEXT = {}


def main():
    checks = []
    for pid in sorted(props.PROPS):
        sp = props.PROPS[pid]
        checks.append({
            'property_id': pid,
            'quick_cmd': './check %s --tier quick' % pid,
            'thorough_cmd': './check %s --tier thorough' % pid,
            'evidence_file': 'evidence/%s.json' % pid,
            'replay_cmd_template': './check %s --replay {path}' % pid,
            'engine': 'verus+kani',
            'level_claimed': {
                'category': 'proof',
                'text': sp.get('level_text') or sp.get('explanation', ''),
                'design_ref': 'DESIGN.md section 5 (%s)' % pid,
            },
            'level_note': sp.get('level_note') or ((' | '.join(sp.get('trusted', [])) + ' | ') if sp.get('trusted') else '') + ('bounded obligations on the real library, labelled bounded and never counted as discharged: ' + ', '.join(b['kind'] for b in sp['bounded']) + ' | ' if sp.get('bounded') else '') + 'trusted base: assumed std/alloc contracts on the Verus side (contracts/verus/prelude.rs), rustc derive semantics, tool soundness; deferred (thorough-tier) obligations are listed in the evidence and never counted',
            'technique': sp.get('technique') or 'contract-based deductive verification: Verus (SMT) on the mechanically extracted real functions + Kani/CBMC function-level proofs on the real crate',
        })
    na = [{'property_id': k, 'reason': v} for k, v in sorted(props.NOT_APPLICABLE.items())]
    for pid in ['C%02d' % i for i in range(1, 21)]:
        if pid not in props.PROPS and pid not in props.NOT_APPLICABLE:
            na.append({'property_id': pid, 'reason': 'not yet claimed: check under construction (see DESIGN.md section 5 for the plan)'})
    m = {
        'version': 1,
        'setup_cmd': './setup.sh',
        'hooks': {
            'guard': 'none (no source hooks: contracts and harness modules are injected add-only into a scratch copy of /repo; cfg(kani) exists only there)',
            'enable': 'n/a - ./check copies /repo\'s working tree to a scratch directory and injects `#[cfg(kani)] mod verif_*;` + contract overlays there',
            'baseline_off_cmd': 'cd /repo && cargo test --workspace --no-fail-fast --offline',
            'source_commits': [],
            'add_only': True,
        },
        'engines': [
            {'name': 'verus', 'path': 'vf/verus.py', 'serves_properties': sorted(p for p in props.PROPS if props.PROPS[p].get('verus')),
             'kind_free_text': 'Verus 0.2026.09.13 (Z3) on the real crates, annotated in place by vf/extract.py from contracts/verus/*.overlay'},
            {'name': 'kani', 'path': 'vf/kani.py', 'serves_properties': sorted(p for p in props.PROPS if props.PROPS[p].get('kani')),
             'kind_free_text': 'Kani 0.68 / CBMC 6.11 harnesses (contracts/kani/*.rs) on the real crate + real tinystr'},
            {'name': 'witness', 'path': 'witness/', 'serves_properties': sorted(p for p in props.PROPS if props.PROPS[p].get('bounded') or props.PROPS[p].get('standin')),
             'kind_free_text': 'replay of counterexamples on the real library and the bounded obligations (labelled bounded, never counted as proved): exhaustive enumeration of stated '
                               'finite spaces against executable references of the contracts (witness/src/bounded.rs), the C14 layout rows by execution (vw dirrows)'},
            {'name': 'featdiff', 'path': 'featdiff/ + vf/featdiff.py', 'serves_properties': ['C20'],
             'kind_free_text': 'bounded differential run of one observation program built against the real crates under the four combinations of the optional cargo features'},
        ],
        'checks': checks,
        'not_applicable': na,
        'notes': 'fix: commits in /repo and known findings are recorded in known_findings.txt; see DESIGN.md',
    }
    json.dump(m, open(os.path.join(common.VERIF, 'MANIFEST.json'), 'w'), indent=1)
    print('MANIFEST.json: %d checks, %d not_applicable' % (len(checks), len(na)))


if __name__ == '__main__':
    main()
