"""Independent re-derivation of the bundled CLDR tables from the JSON files in the repository copy.

Nothing here uses the repository's generator binaries or its parser: language identifiers in the
CLDR files are split with the UTS #35 shape rules below, and the integer forms are computed from
the definition (ASCII bytes, little endian, zero padded) -- see DESIGN.md (C18, C06, C14).
The output is Rust source that is pasted into the Kani harness modules at //@GEN@.
"""
import glob
import json
import os
import re


def enc(s):
    """TinyAsciiStr integer form: ASCII bytes, little endian, zero padded."""
    return int.from_bytes(s.encode('ascii'), 'little')


def split_lid(text):
    """(language|None, script|None, region|None, [variants]) by UTS #35 subtag shapes; canonical case."""
    parts = re.split(r'[-_]', text)
    lang = parts[0].lower()
    assert re.fullmatch(r'[a-z]{2,3}|[a-z]{5,8}', lang), text
    script = region = None
    variants = []
    pos = 1
    for p in parts[1:]:
        if pos == 1 and re.fullmatch(r'[A-Za-z]{4}', p):
            script = p[0].upper() + p[1:].lower()
            pos = 2
        elif pos <= 2 and re.fullmatch(r'[A-Za-z]{2}|[0-9]{3}', p):
            region = p.upper()
            pos = 3
        elif re.fullmatch(r'[A-Za-z0-9]{5,8}|[0-9][A-Za-z0-9]{3}', p):
            variants.append(p.lower())
            pos = 3
        else:
            raise ValueError('not a language identifier: %r' % text)
    return (None if lang == 'und' else lang), script, region, variants


def opt(v):
    return 'None' if v is None else 'Some(%d)' % v


CHUNK = 512


def likely(repo_dir):
    data = json.load(open(os.path.join(repo_dir, 'unic-langid-impl', 'data', 'likelySubtags.json')))
    sup = data['supplemental']
    tabs = {k: [] for k in ('LANG_ONLY', 'LANG_REGION', 'LANG_SCRIPT', 'SCRIPT_REGION', 'SCRIPT_ONLY', 'REGION_ONLY')}
    for k, v in sup['likelySubtags'].items():
        kl, ks, kr, kv = split_lid(k)
        vl, vs, vr, vv = split_lid(v)
        assert not kv and not vv
        if vr == 'ZZ':
            vr = None
        val = (None if vl is None else enc(vl), None if vs is None else enc(vs), None if vr is None else enc(vr))
        if kl is None and ks is None and kr is None:
            tabs['LANG_ONLY'].append(((enc('und'),), val))
        elif kl is not None and ks is None and kr is None:
            tabs['LANG_ONLY'].append(((enc(kl),), val))
        elif kl is not None and ks is None:
            tabs['LANG_REGION'].append(((enc(kl), enc(kr)), val))
        elif kl is not None and kr is None:
            tabs['LANG_SCRIPT'].append(((enc(kl), enc(ks)), val))
        elif kl is None and ks is not None and kr is not None:
            tabs['SCRIPT_REGION'].append(((enc(ks), enc(kr)), val))
        elif kl is None and ks is not None:
            tabs['SCRIPT_ONLY'].append(((enc(ks),), val))
        elif kl is None and kr is not None:
            tabs['REGION_ONLY'].append(((enc(kr),), val))
        else:
            raise ValueError('CLDR key with language, script and region: %r' % k)
    out = ['// regenerated on every run by vf/gen.py from unic-langid-impl/data/likelySubtags.json (%d entries)' % len(sup['likelySubtags']),
           'pub const EXPECTED_CLDR_VERSION: &str = "%s";' % sup['version']['_cldrVersion'],
           'pub type Val = (Option<u64>, Option<u32>, Option<u32>);']
    types = {'LANG_ONLY': '(u64, Val)', 'LANG_REGION': '(u64, u32, Val)', 'LANG_SCRIPT': '(u64, u32, Val)',
             'SCRIPT_REGION': '(u32, u32, Val)', 'SCRIPT_ONLY': '(u32, Val)', 'REGION_ONLY': '(u32, Val)'}
    for name, rows in tabs.items():
        rows.sort(key=lambda r: r[0])
        assert len(set(r[0] for r in rows)) == len(rows), 'duplicate CLDR key in ' + name
        if len(rows) <= 1000:
            out.append('pub static EXPECTED_%s: [%s; %d] = [' % (name, types[name], len(rows)))
            for key, val in rows:
                out.append('    (%s, (%s, %s, %s)),' % (', '.join(str(x) for x in key), opt(val[0]), opt(val[1]), opt(val[2])))
            out.append('];')
        if len(rows) > 1000:
            # CBMC cannot compare two 7143-row arrays under one symbolic index (> 30 min), and a 7143-arm match is beyond
            # goto-instrument (> 20 GB): the CLDR side is emitted in chunks of CHUNK rows, one small static per chunk
            out.append('pub const EXPECTED_%s_LEN: usize = %d;' % (name, len(rows)))
            # ... and once in full as a `const`, compared with the real static by rustc's compile-time evaluation (quick tier)
            out.append('pub const EXPECTED_%s_FULL: [%s; %d] = [' % (name, types[name], len(rows)))
            for key, val in rows:
                out.append('    (%s, (%s, %s, %s)),' % (', '.join(str(x) for x in key), opt(val[0]), opt(val[1]), opt(val[2])))
            out.append('];')
            out.append('pub const CHUNK: usize = %d;' % CHUNK)
            for c in range(0, len(rows), CHUNK):
                part = rows[c:c + CHUNK]
                out.append('pub static EXPECTED_%s_%02d: [%s; %d] = [' % (name, c // CHUNK, types[name], len(part)))
                for key, val in part:
                    out.append('    (%s, (%s, %s, %s)),' % (', '.join(str(x) for x in key), opt(val[0]), opt(val[1]), opt(val[2])))
                out.append('];')
    return '\n'.join(out) + '\n'


DIRS = {'left-to-right': 0, 'right-to-left': 1, 'top-to-bottom': 2}


def layout_rows(repo_dir):
    rows = []
    base = os.path.join(repo_dir, 'unic-langid-impl', 'data', 'cldr-misc-full', 'main')
    for p in sorted(glob.glob(os.path.join(base, '*', 'layout.json'))):
        d = json.load(open(p))
        (name, body), = d['main'].items()
        if name == 'root':
            continue
        rows.append((name, split_lid(name), DIRS[body['layout']['orientation']['characterOrder']]))
    return rows


def layout(repo_dir):
    rows = layout_rows(repo_dir)
    by_script = {}
    rtl_langs = set()
    lang_dirs = {}
    for name, (l, s, r, v), d in rows:
        if s is not None:
            by_script.setdefault(s, set()).add(d)
        if d == 1:
            rtl_langs.add(l)
        lang_dirs.setdefault(l, set()).add(d)
    for s, ds in by_script.items():
        assert len(ds) == 1, 'script with two directions in CLDR: ' + s
    sc = {0: [], 1: [], 2: []}
    for s, ds in by_script.items():
        sc[next(iter(ds))].append(enc(s))
    multi = sorted(enc(l) for l, ds in lang_dirs.items() if len(ds) > 1 and l is not None)
    out = ['// regenerated on every run by vf/gen.py from unic-langid-impl/data/cldr-misc-full/main/*/layout.json (%d locales)' % len(rows)]

    def arr(name, ty, xs):
        xs = sorted(xs)
        out.append('pub static %s: [%s; %d] = [%s];' % (name, ty, len(xs), ', '.join(str(x) for x in xs)))
    arr('EXPECTED_SCRIPTS_LTR', 'u32', sc[0])
    arr('EXPECTED_SCRIPTS_RTL', 'u32', sc[1])
    arr('EXPECTED_SCRIPTS_TTB', 'u32', sc[2])
    assert None not in rtl_langs
    arr('EXPECTED_LANGS_RTL', 'u64', [enc(l) for l in rtl_langs])
    arr('EXPECTED_LANGS_MULTI_DIR', 'u64', multi)
    # (language, script, region, direction) of every CLDR layout locale; 0 = absent subtag; the three locales with a
    # variant (be-tarask, ca-ES-valencia, el-polyton) are listed without it: C14 says variants never matter, which the
    # harness checks separately
    out.append('pub static EXPECTED_LAYOUT_ROWS: [(u64, u32, u32, u8); %d] = [' % len(rows))
    for name, (l, s, r, v), d in rows:
        out.append('    (%d, %d, %d, %d), // %s' % (0 if l is None else enc(l), 0 if s is None else enc(s), 0 if r is None else enc(r), d, name))
    out.append('];')
    # the rows whose direction the library refines through maximize when likely subtags are enabled
    # (script-less identifiers of a language CLDR lists as right-to-left somewhere)
    need = [(name, t, d) for name, t, d in rows if t[1] is None and t[0] in rtl_langs]
    # ... with the script CLDR's likelySubtags gives for (language, region): the (language, region) entry, else the
    # language entry (C06's cascade restricted to script-less input, computed here directly from the JSON)
    ls = json.load(open(os.path.join(repo_dir, 'unic-langid-impl', 'data', 'likelySubtags.json')))['supplemental']['likelySubtags']
    tab = {}
    for k, v in ls.items():
        kl, ks, kr, _ = split_lid(k)
        tab[(kl, ks, kr)] = split_lid(v)
    out.append('// (language, 0, region, CLDR direction, likely script or 0)')
    out.append('pub static EXPECTED_LAYOUT_ROWS_LIKELY: [(u64, u32, u32, u8, u32); %d] = [' % len(need))
    for name, (l, s, r, v), d in need:
        e = tab.get((l, None, r)) if r is not None else None
        if e is None:
            e = tab.get((l, None, None))
        lk = 0 if e is None or e[1] is None else enc(e[1])
        out.append('    (%d, 0, %d, %d, %d), // %s' % (enc(l), 0 if r is None else enc(r), d, lk, name))
    out.append('];')
    return '\n'.join(out) + '\n'


def generate(which, repo_dir):
    if which == 'likely':
        return likely(repo_dir)
    if which == 'layout':
        return layout(repo_dir)
    raise NotImplementedError(which)
