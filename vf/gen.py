def generate(which, repo_dir):
    raise NotImplementedError(which)
