"""Syntactic obligations that accompany the contracts (never a proof of behaviour: they only make sure that no
feature-gated code exists outside the functions that are re-verified under every feature set, C20)."""
import glob
import os
import re

# every `cfg(feature = ...)` site of the implementation and facade crates on the reference tree, with what covers it
ALLOWED = [
    ('unic-langid-impl/src/lib.rs', r'#\[cfg\(feature = "likelysubtags"\)\]\s*pub mod likelysubtags;', 'module declaration (likelysubtags: U-TAB / U-LIKELY)'),
    ('unic-langid-impl/src/lib.rs', r'#\[cfg\(feature = "serde"\)\]\s*mod serde;', 'module declaration (serde: U-SERDE)'),
    ('unic-langid-impl/src/lib.rs', r'#\[cfg\(feature = "likelysubtags"\)\]\s*pub fn maximize\(', 'LanguageIdentifier::maximize (Verus, feature on)'),
    ('unic-langid-impl/src/lib.rs', r'#\[cfg\(feature = "likelysubtags"\)\]\s*pub fn minimize\(', 'LanguageIdentifier::minimize (Verus, feature on)'),
    ('unic-langid-impl/src/lib.rs', r'#\[cfg\(feature = "likelysubtags"\)\]\s*if let Some\(\(_, Some\(script\), _\)\) =', 'character_direction refinement (langid_dir / langid_dir_likely, C14)'),
    ('unic-langid/src/lib.rs', r'#\[cfg\(feature = "unic-langid-macros"\)\]\s*(pub use|#\[macro_export\]|macro_rules!)', 'facade: macro re-export / macro_rules (no function)'),
    ('unic-locale/src/lib.rs', r'#\[cfg\(feature = "unic-locale-macros"\)\]\s*(pub use|#\[macro_export\]|macro_rules!)', 'facade: macro re-export / macro_rules (no function)'),
]


def run(kind, repo):
    if kind != 'cfg_sites':
        return [{'name': 'scan:' + kind, 'engine': 'scan', 'status': 'undecided', 'why': 'unknown scan'}]
    out = []
    files = []
    for crate in ('unic-langid-impl', 'unic-locale-impl', 'unic-langid', 'unic-locale'):
        for p in sorted(glob.glob(os.path.join(repo, crate, 'src', '**', '*.rs'), recursive=True)):
            rel = os.path.relpath(p, repo)
            if '/bin/' in rel or os.path.basename(p).startswith('verif_'):
                continue
            files.append((rel, open(p).read()))
    unknown = []
    n = 0
    for rel, text in files:
        for m in re.finditer(r'#!?\[cfg(?:_attr)?\([^\]]*feature[^\]]*\)\]', text):
            n += 1
            tail = text[m.start():m.start() + 300]
            if not any(rel == f and re.match(rx, tail) for f, rx, _ in ALLOWED):
                unknown.append('%s:%d %s' % (rel, text.count('\n', 0, m.start()) + 1, ' '.join(tail.split())[:120]))
        for m in re.finditer(r'cfg!\s*\(\s*feature', text):
            n += 1
            unknown.append('%s:%d cfg!(feature ...)' % (rel, text.count('\n', 0, m.start()) + 1))
    rec = {'name': 'scan:cfg_sites', 'engine': 'scan', 'backend': 'python (syntactic)', 'time_s': 0.0, 'checks': n}
    if unknown:
        rec['status'] = 'undecided'
        rec['why'] = 'feature-gated code outside the functions that are re-verified under every feature set: ' + '; '.join(unknown)[:600]
    else:
        rec['status'] = 'proved'
    out.append(rec)
    return out
