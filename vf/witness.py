"""Replay files: counterexample (Kani concrete playback) or failed-obligation record (Verus)."""
import json
import os
import time

from . import common


def make_replay(prop, ob, ctx):
    rp = {'property': prop, 'obligation': ob['name'], 'engine': ob['engine'], 'failed': ob.get('failed'),
          'verifier_output': ob.get('detail', ''), 'input': None, 'created': time.strftime('%Y-%m-%dT%H:%M:%S')}
    summary = ''
    if ob['engine'] == 'kani':
        try:
            res = ctx.kani_results(ob['unit'], [ob['harness']], 900, playback=True)
            pb = res[ob['harness']].get('playback') or []
            fails = [t for t in pb if t['class'] != 'cover']
            if fails:
                rp['kani_playback'] = fails[0]
                rp['input'] = decode(ob['harness'], fails[0]['values'])
                rp['verifier_output'] = fails[0]['desc']
        except Exception as ex:  # pragma: no cover
            rp['playback_error'] = str(ex)
    if (rp['input'] is None or rp['input'].get('kind') == 'raw') and ob['engine'] == 'kani' and str(ob.get('unit', '')).startswith('langid_tables'):
        try:
            rp['input'] = table_diff_input(ctx.repo())
        except Exception as ex:  # pragma: no cover
            rp['search_error'] = str(ex)
    if (rp['input'] is None or rp['input'].get('kind') == 'raw') and ob['engine'] == 'kani' and str(ob.get('unit', '')).startswith('langid_match'):
        # no decoder for the matches harness family: look for a concrete pair on the product domain of C11 instead
        try:
            found = search_kind('matches', 0)
            if found:
                rp['input'] = found
        except Exception as ex:  # pragma: no cover
            rp['search_error'] = str(ex)
    if (rp['input'] is None or rp['input'].get('kind') == 'raw') and ob['engine'] == 'kani' and str(ob.get('unit', '')).startswith('langid_serde'):
        # no decoder for the serde harness family (mock serializers): look for a concrete string through serde_json instead
        try:
            found = search_kind('serde', 0)
            if found:
                rp['input'] = found
        except Exception as ex:  # pragma: no cover
            rp['search_error'] = str(ex)
    if ob.get('standin_input'):
        rp['input'] = ob['standin_input']
    elif ob['engine'] == 'verus':
        try:
            rp['input'] = search_input(prop, ob)
        except Exception as ex:  # pragma: no cover
            rp['search_error'] = str(ex)
    if rp['input'] is not None:
        ok, summary = run_input(prop, rp)
        rp['replayed_on_real_code'] = ok
        rp['replay_summary'] = summary
    name = '%s-%s.json' % (prop, common.sha(ob['name'])[:10])
    path = os.path.join(common.OUT, 'replays', name)
    json.dump(rp, open(path, 'w'), indent=1)
    return {'path': path, 'has_input': rp['input'] is not None and rp.get('replayed_on_real_code', False), 'summary': summary}


LSR_FAMILIES = {
    # harness -> how the harness draws (language, script, region): 'none' | 'some' | 'any'
    'maximize_is_cascade_no_lang': 'none', 'maximize_is_cascade_lang': 'some', 'maximize_is_cascade_lang_specific': 'some',
    'maximize_full_is_unchanged': 'some', 'maximize_only_adds_fills_idempotent': 'any', 'minimize_laws': 'any', 'minimize_idempotent': 'any',
    'minimize_after_maximize': 'any', 'dir_is_model': 'any',
}


def decode(harness, values):
    """Kani playback values -> a description of the input (harness-specific layout)."""
    flat = [v for v in values]
    if harness.startswith('leaf_') and len(flat) >= 17 and all(len(x) == 1 for x in flat[:16]) and len(flat[16]) == 8:
        buf = bytes(x[0] for x in flat[:16])
        ln = int.from_bytes(bytes(flat[16]), 'little')
        return {'kind': 'bytes', 'harness': harness, 'hex': buf[:ln].hex(), 'ascii': buf[:ln].decode('latin1')}
    ORD = {'leaf_variant_ord_is_lex': ('variant', 9), 'leaf_language_ord_is_lex': ('language', 9), 'leaf_script_ord_is_lex': ('script', 5), 'leaf_region_ord_is_lex': ('region', 5)}
    if harness in ORD:
        ty, n = ORD[harness]
        # two draws of (buffer of n bytes, length): any_<type>() twice
        if len(flat) >= 2 * (n + 1) and all(len(x) == 1 for x in flat[:n]) and len(flat[n]) == 8:
            def one(off):
                buf = bytes(x[0] for x in flat[off:off + n])
                ln = int.from_bytes(bytes(flat[off + n]), 'little')
                return buf[:ln]
            a, b = one(0), one(n + 1)
            return {'kind': 'rawrt', 'harness': harness, 'type': ty, 'a_hex': a.hex(), 'b_hex': b.hex(), 'ascii': [a.decode('latin1'), b.decode('latin1')]}
    if harness in LSR_FAMILIES:
        # replicate the harness's sequence of kani::any() draws: `if any::<bool>() { absent } else { any raw integer }`
        it = iter(flat)

        def num():
            return int.from_bytes(bytes(next(it)), 'little')

        def opt():
            return None if num() != 0 else num()
        try:
            mode = LSR_FAMILIES[harness]
            lang = None if mode == 'none' else (num() if mode == 'some' else opt())
            script, region = opt(), opt()
            return {'kind': 'lsr', 'harness': harness, 'l': lang, 's': script, 'r': region}
        except StopIteration:
            pass
    return {'kind': 'raw', 'harness': harness, 'values': values}


def table_diff_input(repo):
    """A closed table obligation failed: find rows of the checked-in tables.rs that differ from the CLDR re-derivation and turn
    the first one whose lookup misbehaves on the real library into a replayable (language, script, region)."""
    import re
    from . import gen, refmodel
    exp = gen.likely(repo)
    real = open(os.path.join(repo, 'unic-langid-impl/src/likelysubtags/tables.rs')).read()

    width = {'LANG_ONLY': 4, 'LANG_REGION': 5, 'LANG_SCRIPT': 5, 'SCRIPT_REGION': 5, 'SCRIPT_ONLY': 4, 'REGION_ONLY': 4}

    def rows(txt, name):
        m = re.search(r'pub (?:static|const) %s: \[[^;]*; \d+\] = \[(.*?)\n\];' % name, txt, re.S)
        if not m:
            return []
        nums = [None if x == 'None' else int(x) for x in re.findall(r'\d+|None', m.group(1))]
        w = width[name.replace('EXPECTED_', '').replace('_FULL', '')]
        return [tuple(nums[i:i + w]) for i in range(0, len(nums), w)]
    shapes = {'LANG_ONLY': lambda r: (r[0], None, None), 'LANG_REGION': lambda r: (r[0], None, r[1]), 'LANG_SCRIPT': lambda r: (r[0], r[1], None),
              'SCRIPT_REGION': lambda r: (None, r[0], r[1]), 'SCRIPT_ONLY': lambda r: (None, r[0], None), 'REGION_ONLY': lambda r: (None, None, r[0])}
    cands = []
    for name, key in shapes.items():
        a = rows(real, name)
        b = rows(exp, 'EXPECTED_%s_FULL' % name) or rows(exp, 'EXPECTED_' + name)
        for i in range(max(len(a), len(b))):
            ra = a[i] if i < len(a) else None
            rb = b[i] if i < len(b) else None
            if ra != rb:
                for r in (rb, ra):
                    if r is not None:
                        cands.append((name, i, key(r)))
    for name, i, (l, s_, r) in cands[:200]:
        if l == gen.enc('und'):
            continue
        inp = {'kind': 'lsr', 'l': l, 's': s_, 'r': r, 'found_by': 'diff of tables.rs against the CLDR re-derivation: %s row %d' % (name, i)}
        ok, _ = run_input('C18', {'input': inp})
        if ok:
            return inp
    if cands:
        name, i, (l, s_, r) = cands[0]
        return {'kind': 'lsr', 'l': l, 's': s_, 'r': r, 'found_by': 'diff of tables.rs against the CLDR re-derivation: %s row %d (lookup of this key agrees; the table text differs)' % (name, i)}
    return None


def lsr_verdict(prop, inp, out):
    """Compare what the real library did on (l, s, r) with the reference built from the CLDR JSON (vf/refmodel.py)."""
    import re
    from . import refmodel
    ref = refmodel.Ref(common.REPO)
    f = dict(re.findall(r'(\w+)=(\S+)', out))

    def trip(t):
        t = t.split(':')[-1]
        return tuple(None if x == '-' else int(x) for x in t.split(','))

    def shown(t):
        return '-'.join(['und' if t[0] is None else refmodel.text(t[0])] + [refmodel.text(x) for x in t[1:] if x is not None])
    x, mx, mn = trip(f['x']), trip(f['max']), trip(f['min'])
    cmx, cmn = f['max'].startswith('true'), f['min'].startswith('true')
    problems = []
    want = ref.mx(*x)
    if prop in ('C06', 'C18', 'C14', 'C07'):
        if (want is None) != (not cmx) or (want is not None and want != mx):
            problems.append('maximize(%s) = %s, the CLDR cascade gives %s' % (shown(x), shown(mx) if cmx else 'unchanged', shown(want) if want else 'unchanged'))
    if prop in ('C07', 'C06'):
        if cmx and (None in mx or any(a is not None and a != b for a, b in zip(x, mx))):
            problems.append('maximize(%s) = %s drops or replaces a given subtag or leaves one empty' % (shown(x), shown(mx)))
        if not cmx and mx != x:
            problems.append('maximize(%s) returned false but changed the value to %s' % (shown(x), shown(mx)))
        if f['maxmax'].startswith('true'):
            problems.append('maximize is not idempotent on %s' % shown(x))
    if prop == 'C08':
        if trip(f['minmin']) != mn:
            problems.append('minimize(minimize(%s)) = %s != minimize = %s' % (shown(x), shown(trip(f['minmin'])), shown(mn)))
        if trip(f['minmax']) != mn:
            problems.append('minimize(maximize(%s)) = %s != minimize(%s) = %s' % (shown(x), shown(trip(f['minmax'])), shown(x), shown(mn)))
        if cmn and trip(f['maxmin']) != (mx if cmx else x):
            problems.append('minimize(%s) = %s maximizes to %s, the original to %s' % (shown(x), shown(mn), shown(trip(f['maxmin'])), shown(mx)))
        if not cmn and mn != x:
            problems.append('minimize(%s) returned false but changed the value' % shown(x))
    if prop == 'C14':
        d = {'LTR': 0, 'RTL': 1, 'TTB': 2}[f['dir']]
        if d != ref.direction(x[0], x[1], x[2], True):
            problems.append('character_direction(%s) = %s, the CLDR model (likely subtags on) gives %s' % (shown(x), f['dir'], ['LTR', 'RTL', 'TTB'][ref.direction(x[0], x[1], x[2], True)]))
    return problems


VW = os.path.join(common.BUILD, 'witness-target', 'release', 'vw')
_built = False


def build():
    """(Re)build the witness binary against the repository's current working tree (common.REPO)."""
    global _built, VW
    if _built:
        return os.path.exists(VW)
    src = os.path.join(common.VERIF, 'witness')
    tdir = os.path.join(common.BUILD, 'witness-target')
    if os.path.realpath(common.REPO) != '/repo':
        # development aid (VERIF_REPO=<scratch worktree>): same crate with the path dependencies redirected
        import shutil
        dst = os.path.join(common.scratch(), 'witness')
        shutil.copytree(src, dst, dirs_exist_ok=True)
        ct = open(os.path.join(dst, 'Cargo.toml')).read().replace('/repo/', common.REPO.rstrip('/') + '/')
        open(os.path.join(dst, 'Cargo.toml'), 'w').write(ct)
        src, tdir = dst, os.path.join(common.scratch(), 'witness-target')
        VW = os.path.join(tdir, 'release', 'vw')
    r = common.run(['cargo', 'build', '--offline', '--release', '--target-dir', tdir], cwd=src, timeout=600)
    _built = True
    return r['rc'] == 0 and os.path.exists(VW)


XLEAF_TYPES = {'leaf_parse_key': 'ukey', 'leaf_parse_type': 'utype', 'leaf_parse_attribute': 'uattr', 'leaf_parse_tkey': 'tkey',
               'leaf_parse_tvalue': 'tvalue', 'leaf_parse_value': 'private'}
LEAF_TYPES = {'leaf_language_from_bytes': 'language', 'leaf_script_from_bytes': 'script', 'leaf_region_from_bytes': 'region',
              'leaf_variant_from_bytes': 'variant'}


def run_input(prop, rp):
    """Re-execute a recorded input on the real library. (True, text) if the disagreement reproduces."""
    if not build():
        return False, 'witness binary could not be built against /repo'
    inp = rp['input']
    if inp.get('kind') == 'featdiff':
        from . import featdiff
        return featdiff.replay(inp)
    if inp.get('kind') == 'bytes' and inp.get('harness') in LEAF_TYPES:
        cmd = [VW, 'leaf', LEAF_TYPES[inp['harness']], inp['hex']]
    elif inp.get('kind') == 'rawrt':
        cmd = [VW, 'rawrt', inp['type'], inp['a_hex'] or '00', inp['b_hex'] or '00']
    elif inp.get('kind') == 'bytes' and inp.get('harness') in XLEAF_TYPES:
        cmd = [VW, 'xleaf', XLEAF_TYPES[inp['harness']], inp['hex']]
    elif inp.get('kind') == 'lsr':
        o = lambda v: '-' if v is None else str(v)
        r = common.run([VW, 'lsr', o(inp['l']), o(inp['s']), o(inp['r'])], timeout=120)
        out = (r['out'] or '').strip()
        if r['rc'] != 0 or not out.startswith('x='):
            return False, 'replay of the raw (language, script, region) could not be run: ' + ((r['err'] or '') + out)[-300:]
        problems = lsr_verdict(prop, inp, out)
        if problems:
            return True, 'DISAGREE ' + '; '.join(problems) + '   [real library: ' + out[:300] + ']'
        return False, 'AGREE the solver\'s (language, script, region) does not reproduce on the real library with the real tables (the obligation is modular: it may fail only under the abstract callee) [' + out[:200] + ']'
    elif inp.get('kind') == 'vw':
        cmd = [VW] + inp['args']
    else:
        return False, 'no replay routine for this input kind (raw solver values recorded)'
    r = common.run(cmd, timeout=120)
    out = (r['out'] or '').strip()
    return (r['rc'] == 1 and out.startswith('DISAGREE')), out[:600]


SEARCH = [
    # failed Verus obligation (name pattern) -> bounded searches on the real library, tried in order
    (r'parser::parse_language_identifier|LanguageIdentifier::(from_bytes|try_from_iter)|unic_langid_impl::canonicalize', ['lid', 'locale', 'rt']),
    (r'from_parts|into_parts', ['fromparts', 'rt']),
    (r'::fmt$|canonicalize|lemma_', ['rt', 'mut', 'inv']),
    (r'ExtensionList::(set_|remove_|clear_|add_|has_|is_empty|tlang)|set_variants|clear_variants|has_variant', ['mut']),
    (r'::matches$', ['matches']),
    (r'::(Locale|LanguageIdentifier)::from$', ['super']),
    (r'LanguageIdentifier::(maximize|minimize)', ['likely']),
    (r'LanguageIdentifier::eq$', ['rt']),
    (r'unic_locale_impl::|locale', ['locale', 'rt']),
]


def search_kind(kind, seed=0):
    if kind == 'features':
        from . import featdiff
        return featdiff.search()
    if kind == 'dirrows':
        return dirrows()
    if not build():
        return None
    r = common.run([VW, 'search', kind, str(seed)], timeout=900)
    out = (r['out'] or '').strip()
    if out.startswith('FOUND '):
        _, hx, desc = out.split(' ', 2)
        return {'kind': 'vw', 'args': [kind, hx], 'hex': hx, 'ascii': bytes.fromhex(hx).decode('latin1'), 'found_by': 'search ' + kind, 'desc': desc}
    if not out.startswith('NONE'):
        # the enumeration itself died (timeout, or a panic inside the library that the harness does not catch): not a verdict
        raise RuntimeError('bounded search %s did not complete (rc=%s): %s' % (kind, r['rc'], ((r['err'] or '') + out)[-400:].replace('\n', ' ')))
    return None


def dirrows():
    """C14, closed obligation decided by execution: every CLDR layout locale (rows re-derived by vf/gen.py on every run) on the real
    library built with likely subtags: character_direction == characterOrder; for the script-less rows of right-to-left languages the
    real maximize gives the likely script CLDR gives."""
    import re
    from . import gen
    if not build():
        return None
    txt = gen.layout(common.REPO)
    m = re.search(r'EXPECTED_LAYOUT_ROWS: [^=]*= \[(.*?)\n\];', txt, re.S)
    rows = re.findall(r'\((\d+), (\d+), (\d+), (\d+)\)', m.group(1))
    m2 = re.search(r'EXPECTED_LAYOUT_ROWS_LIKELY: [^=]*= \[(.*?)\n\];', txt, re.S)
    lik = {(a, c): e for a, b, c, d, e in re.findall(r'\((\d+), (\d+), (\d+), (\d+), (\d+)\)', m2.group(1))}
    path = os.path.join(common.scratch(), 'dirrows.txt')
    with open(path, 'w') as f:
        for l, s_, r, d in rows:
            f.write('%s %s %s %s %s\n' % (l, s_, r, d, lik.get((l, r), '-') if s_ == '0' else '-'))
    r = common.run([VW, 'dirrows', path], timeout=300)
    out = (r['out'] or '').strip()
    if out.startswith('FOUND '):
        _, l, s_, rg, desc = out.split(' ', 4)
        o = lambda v: None if v == '-' else int(v)
        return {'kind': 'lsr', 'l': o(l), 's': o(s_), 'r': o(rg), 'found_by': 'execution of all %d CLDR layout rows' % len(rows), 'desc': desc}
    if not out.startswith('NONE'):
        raise RuntimeError('dirrows did not complete (rc=%s): %s' % (r['rc'], ((r['err'] or '') + out)[-400:].replace('\n', ' ')))
    return None


def search_input(prop, ob, seed=0):
    """After a Verus failure (no model): bounded search for an input on which the real library
    disagrees with the executable reference of the failed contract."""
    import re
    if not build():
        return None
    for pat, kinds in SEARCH:
        if re.search(pat, ob['name']):
            for kind in kinds:
                try:
                    inp = search_kind(kind, seed)
                except Exception:
                    inp = None
                if inp:
                    return inp
            return None
    return None


def run_replay(prop, path):
    rp = json.load(open(path))
    print(json.dumps({k: rp.get(k) for k in ('property', 'obligation', 'failed', 'input')}, indent=1))
    if rp.get('input') is None:
        print('no input recorded: the replay file names the failed obligation and carries the verifier output')
        return 1
    ok, summary = run_input(prop, rp)
    print(summary)
    return 1 if ok else 0
