"""Python reference for replaying likely-subtags / direction counterexamples (raw integer forms), built from the
CLDR JSON files with vf/gen.py's independent reader.  Used only to turn a verifier counterexample into a verdict on the real
code (DISAGREE / AGREE); it never decides a property."""
import json
import os

from . import gen


class Ref:
    def __init__(self, repo):
        ls = json.load(open(os.path.join(repo, 'unic-langid-impl', 'data', 'likelySubtags.json')))['supplemental']['likelySubtags']
        self.T = {}
        for k, v in ls.items():
            kl, ks, kr, _ = gen.split_lid(k)
            vl, vs, vr, _ = gen.split_lid(v)
            e = lambda x: None if x is None else gen.enc(x)
            key = (gen.enc('und') if (kl is None and ks is None and kr is None) else e(kl), e(ks), e(kr))
            self.T[key] = (e(vl), e(vs), None if vr == 'ZZ' else e(vr))
        rows = gen.layout_rows(repo)
        by_script = {}
        self.rtl = set()
        for name, (l, s, r, v), d in rows:
            if s is not None:
                by_script[gen.enc(s)] = d
            if d == 1:
                self.rtl.add(gen.enc(l))
        self.script_dir = by_script

    def mx(self, l, s, r):
        T = self.T
        if l is not None and s is not None and r is not None:
            return None
        if l is not None:
            if r is not None and (l, None, r) in T:
                return T[(l, None, r)]
            if s is not None and (l, s, None) in T:
                return T[(l, s, None)]
            if (l, None, None) in T:
                v = T[(l, None, None)]
                return (v[0], s if s is not None else v[1], r if r is not None else v[2])
            return None
        if s is not None:
            if r is not None and (None, s, r) in T:
                return T[(None, s, r)]
            if (None, s, None) in T:
                v = T[(None, s, None)]
                return (v[0], v[1], r if r is not None else v[2])
            return None
        if r is not None:
            return T.get((None, None, r))
        return None

    def direction(self, l, s, r, likely=True):
        if s is not None and s in self.script_dir:
            return self.script_dir[s]
        if l is not None and l in self.rtl:
            if likely:
                m = self.mx(l, None, r)
                if m is not None and m[1] is not None and self.script_dir.get(m[1]) == 0:
                    return 0
            return 1
        return 0


def text(v):
    if v is None:
        return '-'
    n = (v.bit_length() + 7) // 8
    return v.to_bytes(max(n, 1), 'little').decode('latin1')
