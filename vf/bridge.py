"""leaf_preds.rs -> Verus text: uncomment `//@ ` lines, name the return value `r`."""
import re


def to_verus(text):
    out = []
    for line in text.splitlines():
        m = re.match(r'^(\s*)//@ ?(.*)$', line)
        if m:
            out.append(m.group(1) + m.group(2))
            continue
        m = re.match(r'^(pub fn \w+\(.*\)) -> ([A-Za-z0-9_:<>&\[\] ]+)$', line)
        if m:
            out.append('%s -> (r: %s)' % (m.group(1), m.group(2)))
            continue
        out.append(line)
    return '\n'.join(out) + '\n'


def bridge_crate(prelude_text, preds_text):
    return ('#![feature(allocator_api)]\n#![allow(unused_imports, dead_code, unused_variables, unused_mut, unused_parens)]\n'
            'use vstd::prelude::*;\nverus! {\n' + prelude_text + '\n// ---- leaf_preds.rs (bridge) ----\n'
            + to_verus(preds_text) + '\n} // verus!\nfn main() {}\n')
