"""Mechanical in-place annotation of a real crate for Verus.

`assemble_crate(src_dir, overlay)` walks the crate's real module tree starting at
`src/lib.rs`, copies every item byte for byte into ONE file whose module structure
mirrors the crate (each `mod x;` becomes `mod x { <contents of x.rs or x/mod.rs> }`),
wraps it in `verus! { ... }`, and overlays contract text from an overlay file:

  * a function listed in the overlay gets its `requires/ensures/decreases` inserted
    between its signature and its body, loop clauses inserted between a loop head and
    the loop body, and `proof { }` / ghost lines inserted at textual anchors;
  * a function listed as `external_body` keeps its body (rustc still compiles it) but
    Verus sees only the contract (these are the leaves whose contracts Kani proves);
  * every function / const / static NOT listed gets `#[verifier::external]` (Verus
    ignores it; if verified code calls it the run is *undecided*, never a pass).

The only edits to copied text are the rewrite rules documented in DESIGN.md section 4.2
(R1 `|_|`->`|_x|`, R2 drop docs/#[inline]/#[doc]/#[test] items, R3 peek-loop
normalisation, R5 named return value, R6 `.peekable()`, R7 `for P in &E`, R8 `.iter().filter_map(..).collect()`, R9 `.map(closure)`, R10 `for P in <&mut impl Iterator>`).  Every rule application is recorded in the
returned manifest so that the evidence can list exactly what differs from /repo.
"""
import hashlib
import os
import re

from .rustlex import lex, match_close, find_body_open, Tok

QUALS = {'pub', 'unsafe', 'async', 'extern', 'default', 'const'}
ITEM_KW = {'use', 'mod', 'struct', 'enum', 'union', 'trait', 'impl', 'fn', 'const', 'static', 'type',
           'macro_rules', 'extern'}


class Item:
    def __init__(self):
        self.kind = None          # use/mod/struct/enum/impl/fn/const/static/type/macro/other
        self.name = None
        self.attrs = []           # list of (start,end) byte spans of attributes
        self.start = None         # byte offset of first non-attribute token
        self.end = None           # byte offset one past the last token
        self.kw_idx = None        # token index of keyword
        self.body_open = None     # token index of `{` (impl/fn/mod/trait)
        self.body_close = None
        self.header = None        # impl header text (normalised)
        self.tok_lo = None
        self.tok_hi = None        # inclusive token index of last token


def norm(s):
    return re.sub(r'\s+', ' ', s).strip()


def split_items(src, toks, lo, hi):
    """Split code tokens toks[lo:hi] (one nesting level) into items."""
    items = []
    i = lo
    while i < hi:
        it = Item()
        it.tok_lo = i
        # attributes
        while i < hi and toks[i].text == '#':
            j = i + 1
            if toks[j].text == '!':
                j += 1
            assert toks[j].text == '[', 'attribute expected at %d' % toks[i].start
            k = match_close(toks, j)
            it.attrs.append((toks[i].start, toks[k].end))
            i = k + 1
        if i >= hi:
            break
        it.start = toks[i].start
        # qualifiers
        j = i
        while j < hi:
            t = toks[j]
            if t.kind == 'ident' and t.text == 'pub':
                j += 1
                if toks[j].text == '(':
                    j = match_close(toks, j) + 1
                continue
            if t.kind == 'ident' and t.text in ('unsafe', 'async', 'default'):
                j += 1
                continue
            if t.kind == 'ident' and t.text == 'extern' and toks[j + 1].kind == 'str':
                j += 2
                continue
            if t.kind == 'ident' and t.text == 'const' and toks[j + 1].kind == 'ident' and toks[j + 1].text in (
                    'fn', 'unsafe', 'async', 'extern'):
                j += 1
                continue
            break
        kw = toks[j]
        it.kw_idx = j
        if kw.kind != 'ident' or kw.text not in ITEM_KW:
            raise ValueError('cannot classify item at byte %d: %r' % (kw.start, src[kw.start:kw.start + 60]))
        k = kw.text
        if k in ('use', 'type') or (k == 'extern' and toks[j + 1].text == 'crate'):
            it.kind = 'use' if k != 'type' else 'type'
            e = j
            depth = 0
            while not (toks[e].text == ';' and depth == 0):
                if toks[e].text in '([{':
                    depth += 1
                elif toks[e].text in ')]}':
                    depth -= 1
                e += 1
            it.name = toks[j + 1].text
            end_idx = e
        elif k in ('const', 'static'):
            it.kind = k
            n = j + 1
            if toks[n].text == 'mut':
                n += 1
            it.name = toks[n].text
            e = n
            depth = 0
            while not (toks[e].text == ';' and depth == 0):
                if toks[e].text in '([{':
                    depth += 1
                elif toks[e].text in ')]}':
                    depth -= 1
                e += 1
            end_idx = e
        elif k == 'mod':
            it.kind = 'mod'
            it.name = toks[j + 1].text
            if toks[j + 2].text == ';':
                end_idx = j + 2
            else:
                it.body_open = j + 2
                it.body_close = match_close(toks, j + 2)
                end_idx = it.body_close
        elif k in ('struct', 'union'):
            it.kind = 'struct'
            it.name = toks[j + 1].text
            e = j + 2
            depth = 0
            end_idx = None
            while True:
                tx = toks[e].text
                if toks[e].kind == 'punct':
                    if tx == '{' and depth == 0:
                        end_idx = match_close(toks, e)
                        break
                    if tx == ';' and depth == 0:
                        end_idx = e
                        break
                    if tx in '([':
                        depth += 1
                    elif tx in ')]':
                        depth -= 1
                e += 1
        elif k in ('enum', 'trait'):
            it.kind = k
            it.name = toks[j + 1].text
            b = find_body_open(toks, j + 1)
            it.body_open = b
            it.body_close = match_close(toks, b)
            end_idx = it.body_close
        elif k == 'impl':
            it.kind = 'impl'
            b = find_body_open(toks, j + 1)
            it.body_open = b
            it.body_close = match_close(toks, b)
            it.header = norm(src[toks[j].start:toks[b].start])
            end_idx = it.body_close
        elif k == 'fn':
            it.kind = 'fn'
            it.name = toks[j + 1].text
            b = find_body_open(toks, j + 2)
            if b is None:
                e = j
                while toks[e].text != ';':
                    e += 1
                end_idx = e
            else:
                it.body_open = b
                it.body_close = match_close(toks, b)
                end_idx = it.body_close
        elif k == 'macro_rules':
            it.kind = 'macro'
            it.name = toks[j + 2].text
            b = j + 3
            c = match_close(toks, b)
            end_idx = c
            if c + 1 < hi and toks[c + 1].text == ';' and toks[b].text != '{':
                end_idx = c + 1
        else:
            raise ValueError('unhandled item keyword %s' % k)
        it.tok_hi = end_idx
        it.end = toks[end_idx].end
        items.append(it)
        i = end_idx + 1
    return items


class Overlay:
    """Parsed overlay file (see contracts/verus/*.overlay)."""

    def __init__(self, path):
        self.path = path
        self.root_text = ''
        self.module_text = {}     # rel file -> text appended in that module
        self.fns = {}             # (file, header, name) -> dict(mode, spec, loops{n:text}, ats[list])
        self.items = {}           # (file, kind, name) -> directive ('external', 'keep', 'drop', 'replace', text)
        self.impls = {}           # (file, header) -> 'external'
        self.used = set()
        self.includes = []
        self._parse(open(path).read())

    def _parse(self, text):
        cur = None      # ('root'|'module'|'fn-spec'|'fn-loop'|'fn-at'|'item-replace', target)
        buf = []
        fn = None

        def flush():
            nonlocal buf
            body = ''.join(buf)
            buf = []
            if cur is None:
                return
            kind = cur[0]
            if kind == 'root':
                self.root_text += body
            elif kind == 'module':
                self.module_text[cur[1]] = self.module_text.get(cur[1], '') + body
            elif kind == 'fn-spec':
                fn['spec'] += body
            elif kind == 'fn-loop':
                fn['loops'][cur[1]] = fn['loops'].get(cur[1], '') + body
            elif kind == 'fn-at':
                cur[1]['text'] += body
            elif kind == 'fn-after-loop':
                fn['after_loops'][cur[1]] = fn['after_loops'].get(cur[1], '') + body
            elif kind == 'item-replace':
                self.items[cur[1]] = ('replace', body)
            elif kind == 'item-attr':
                self.items[cur[1]] = ('attr', body)
            elif kind == 'impl-extra':
                self.impls.setdefault(cur[1], {})['extra'] = self.impls.get(cur[1], {}).get('extra', '') + body

        lines = []
        for line in text.splitlines(keepends=True):
            if line.strip().startswith('//@include '):
                inc = os.path.join(os.path.dirname(self.path), line.strip().split()[1])
                lines.extend(open(inc).read().splitlines(keepends=True))
                self.includes.append(inc)
            else:
                lines.append(line)
        for line in lines:
            s = line.strip()
            if s.startswith('@@'):
                flush()
                parts = [p.strip() for p in s[2:].split('|')]
                d = parts[0].split()
                if d[0] == 'root':
                    cur = ('root', None)
                elif d[0] == 'module':
                    cur = ('module', d[1])
                elif d[0] == 'fn':
                    # @@fn file | impl header | name | mode
                    f = d[1]
                    header = norm(parts[1]) if len(parts) > 1 else ''
                    name = parts[2]
                    mode = parts[3] if len(parts) > 3 and parts[3] else 'verify'
                    fn = {'mode': mode, 'spec': '', 'loops': {}, 'ats': [], 'attrs': '', 'r7': [], 'after_loops': {}}
                    if len(parts) > 4:
                        fn['attrs'] = parts[4]
                    self.fns[(f, header, name)] = fn
                    cur = ('fn-spec', None)
                elif d[0] == 'loop':
                    cur = ('fn-loop', int(d[1]))
                elif d[0] == 'after-loop':
                    cur = ('fn-after-loop', int(d[1]))
                elif d[0] == 'r7':
                    fn['r7'].append(int(d[1]))
                    cur = None
                elif d[0] == 'r9':
                    fn['r9'] = True
                    cur = ('fn-spec-ignore', None)
                elif d[0] == 'r10':
                    fn.setdefault('r10', []).append(int(d[1]))
                    cur = None
                elif d[0] == 'at':
                    # @@at <n> before|after | anchor text
                    at = {'n': int(d[1]), 'where': d[2], 'anchor': s[2:].split('|', 1)[1].strip(), 'text': ''}
                    fn['ats'].append(at)
                    cur = ('fn-at', at)
                elif d[0] == 'item':
                    # @@item file kind name directive
                    key = (d[1], d[2], d[3])
                    if d[4] == 'replace':
                        cur = ('item-replace', key)
                    elif d[4] == 'attr':
                        cur = ('item-attr', key)
                    else:
                        self.items[key] = (d[4], '')
                        cur = None
                elif d[0] == 'impl':
                    # @@impl file | header | external   or  | extra  (text appended inside the impl)
                    key = (d[1], norm(parts[1]))
                    if parts[2] == 'extra':
                        cur = ('impl-extra', key)
                    else:
                        self.impls.setdefault(key, {})['mode'] = parts[2]
                        cur = None
                elif d[0] == 'end':
                    cur = None
                else:
                    raise ValueError('bad overlay directive: ' + s)
            else:
                if cur is not None:
                    buf.append(line)
        flush()


class Assembler:
    def __init__(self, crate_dir, overlay, cfg_features=()):
        self.crate_dir = crate_dir
        self.src_dir = os.path.join(crate_dir, 'src')
        self.ov = overlay
        self.features = set(cfg_features)
        self.manifest = {'functions': [], 'rules': [], 'external': [], 'dropped': [], 'files': []}
        self.errors = []
        self.degraded = []
        self.force_degrade = {}   # (rel, header, name) -> reason: emit these with their contract only (compile error in the annotated body)
        self.module_head = '#[allow(unused_imports)] use vstd::prelude::*;\n#[allow(unused_imports)] use crate::vspec::*;\n'

    # ---- helpers -----------------------------------------------------------------
    def _attr_texts(self, src, it):
        return [src[a:b] for (a, b) in it.attrs]

    def _filter_attrs(self, src, it, rel, what):
        keep = []
        for a in self._attr_texts(src, it):
            na = norm(a)
            if na.startswith('#[doc') or na.startswith('#[inline') or na.startswith('#![allow') or na.startswith(
                    '#[allow'):
                self.manifest['rules'].append({'rule': 'R2', 'file': rel, 'item': what, 'dropped': na})
                continue
            keep.append(a)
        return keep

    def _is_test(self, src, it):
        for a in self._attr_texts(src, it):
            na = norm(a).replace(' ', '')
            if na in ('#[test]', '#[cfg(test)]', '#[bench]'):
                return True
        return False

    def _strip_docs(self, src, lo, hi, all_toks):
        """Return src[lo:hi] with doc comments removed (R2). Ordinary comments are kept."""
        out = []
        pos = lo
        for t in all_toks:
            if t.kind == 'doc' and lo <= t.start and t.end <= hi:
                out.append(src[pos:t.start])
                pos = t.end
        out.append(src[pos:hi])
        return ''.join(out)

    # ---- function emission ---------------------------------------------------------
    def emit_fn(self, src, toks, all_toks, it, rel, header):
        """Emit one function.  If a hint anchor / loop ordinal / rewrite shape of THIS function is lost (its body was
        restructured), the function is emitted with its contract only, as external_body: its own obligations are
        UNDECIDED for this run (never a pass, never an alarm), while every other function is still verified."""
        n_err = len(self.errors)
        n_fn = len(self.manifest['functions'])
        n_rules = len(self.manifest['rules'])
        fkey = (rel, header or '', it.name)
        if fkey in self.force_degrade and fkey in self.ov.fns and self.ov.fns[fkey]['mode'] != 'external_body':
            degraded = dict(self.ov.fns[fkey])
            degraded.update({'mode': 'external_body', 'ats': [], 'loops': {}, 'after_loops': {}, 'r7': [], 'r10': []})
            out = self._emit_fn(src, toks, all_toks, it, rel, header, degraded)
            self.degraded.append({'file': rel, 'header': header or '', 'fn': it.name, 'errors': [self.force_degrade[fkey]]})
            return out
        out = self._emit_fn(src, toks, all_toks, it, rel, header, None)
        if len(self.errors) > n_err:
            key = (rel, header or '', it.name)
            cfg = self.ov.fns.get(key)
            if cfg is not None and cfg['mode'] != 'external_body':
                errs = self.errors[n_err:]
                del self.errors[n_err:]
                del self.manifest['functions'][n_fn:]
                del self.manifest['rules'][n_rules:]
                degraded = dict(cfg)
                degraded.update({'mode': 'external_body', 'ats': [], 'loops': {}, 'after_loops': {}, 'r7': [], 'r10': []})
                out = self._emit_fn(src, toks, all_toks, it, rel, header, degraded)
                self.degraded.append({'file': rel, 'header': header or '', 'fn': it.name, 'errors': errs})
        return out

    def _emit_fn(self, src, toks, all_toks, it, rel, header, cfg_override):
        key = (rel, header or '', it.name)
        cfg = cfg_override or self.ov.fns.get(key)
        attrs = self._filter_attrs(src, it, rel, it.name)
        qual = (header + ' :: ' if header else '') + it.name
        if cfg is None:
            self.manifest['external'].append({'file': rel, 'fn': qual})
            text = self._strip_docs(src, it.start, it.end, all_toks)
            return ''.join(a + '\n' for a in attrs) + '#[verifier::external]\n' + text + '\n'
        self.ov.used.add(key)
        edits = []  # (offset, delete_len, insert_text)
        rules = []
        # R5 named return
        sig_lo, sig_hi = it.kw_idx, it.body_open
        arrow = None
        depth = 0
        j = sig_lo
        while j < sig_hi:
            t = toks[j]
            if t.kind == 'punct':
                if t.text in '([':
                    depth += 1
                elif t.text in ')]':
                    depth -= 1
                elif t.text == '-' and toks[j + 1].text == '>' and depth == 0:
                    arrow = j
                    break
            j += 1
        if arrow is not None:
            ret_lo = toks[arrow + 2].start
            # return type ends before `where` (depth 0) or body
            e = arrow + 2
            depth = 0
            ret_hi_tok = sig_hi - 1
            while e < sig_hi:
                t = toks[e]
                if t.kind == 'punct' and t.text in '([<':
                    depth += 1
                elif t.kind == 'punct' and t.text in ')]>':
                    if not (t.text == '>' and toks[e - 1].text == '-'):
                        depth -= 1
                elif t.kind == 'ident' and t.text == 'where' and depth == 0:
                    ret_hi_tok = e - 1
                    break
                e += 1
            ret_hi = toks[ret_hi_tok].end
            if not src[ret_lo:ret_hi].lstrip().startswith('(r:'):
                edits.append((ret_lo, 0, '(r: '))
                edits.append((ret_hi, 0, ')'))
                rules.append('R5')
        # contract before body
        body_open_off = toks[it.body_open].start
        if cfg['spec'].strip():
            edits.append((body_open_off, 0, '\n' + cfg['spec'].rstrip() + '\n'))
        # loops
        loop_idx = []
        for j in range(it.body_open + 1, it.body_close):
            t = toks[j]
            if t.kind == 'ident' and t.text in ('while', 'for', 'loop'):
                # `for` in `for<'a>` HRTB or `impl X for Y` does not occur inside bodies here
                loop_idx.append(j)
        # R3 peek-loop normalisation
        if cfg['mode'] != 'external_body':
            r3 = self._r3(src, toks, it)
            if r3:
                edits.extend(r3['edits'])
                rules.append('R3')
        # R7 `for P in &E {` -> `for P in E.iter() {` (listed loops only; <&BTreeMap as IntoIterator>::into_iter is `iter()`)
        for n in cfg.get('r7', []):
            if n >= len(loop_idx) or toks[loop_idx[n]].text != 'for':
                self.errors.append('lost anchor: R7 loop %d of %s in %s' % (n, qual, rel))
                continue
            b = find_body_open(toks, loop_idx[n] + 1)
            q = loop_idx[n] + 1
            depth = 0
            while q < b and not (toks[q].kind == 'ident' and toks[q].text == 'in' and depth == 0):
                if toks[q].text in '([':
                    depth += 1
                elif toks[q].text in ')]':
                    depth -= 1
                q += 1
            if q + 1 < b and toks[q + 1].text == '&' and toks[q + 1].kind == 'punct':
                edits.append((toks[q + 1].start, 1, ''))
                edits.append((toks[b - 1].end, 0, '.iter()'))
                rules.append('R7')
            else:
                self.errors.append('R7: loop %d of %s is not `for P in &E`' % (n, qual))
        # R10 `for P in E {` -> `while let Some(P) = vf_iter_next(E) {` on listed loops whose E is a `&mut impl Iterator`
        # (the language's own desugaring of `for`: <&mut I as IntoIterator>::into_iter is the identity, then `next()` until None);
        # vf_iter_next is `Iterator::next` behind the ASSUMED ghost-sequence contract that Peekable::next already has
        for n in cfg.get('r10', []):
            if n >= len(loop_idx) or toks[loop_idx[n]].text != 'for':
                self.errors.append('lost anchor: R10 loop %d of %s in %s' % (n, qual, rel))
                continue
            b = find_body_open(toks, loop_idx[n] + 1)
            q = loop_idx[n] + 1
            depth = 0
            while q < b and not (toks[q].kind == 'ident' and toks[q].text == 'in' and depth == 0):
                if toks[q].text in '([':
                    depth += 1
                elif toks[q].text in ')]':
                    depth -= 1
                q += 1
            if q + 2 == b and toks[q + 1].kind == 'ident':
                f = toks[loop_idx[n]]
                edits.append((f.start, f.end - f.start, 'while let Some('))
                edits.append((toks[q].start, toks[q].end - toks[q].start, ') = vf_iter_next('))
                edits.append((toks[b - 1].end, 0, ')'))
                rules.append('R10')
            else:
                self.errors.append('R10: loop %d of %s is not `for P in <ident>`' % (n, qual))
        for n, text in cfg['loops'].items():
            if n >= len(loop_idx):
                self.errors.append('lost anchor: loop %d of %s in %s' % (n, qual, rel))
                continue
            b = find_body_open(toks, loop_idx[n] + 1)
            edits.append((toks[b].start, 0, '\n' + text.rstrip() + '\n'))
        for n, text in cfg.get('after_loops', {}).items():
            if n >= len(loop_idx):
                self.errors.append('lost anchor: after-loop %d of %s in %s' % (n, qual, rel))
                continue
            b = find_body_open(toks, loop_idx[n] + 1)
            c = match_close(toks, b)
            edits.append((toks[c].end, 0, '\n' + text.rstrip() + '\n'))
        body_lo, body_hi = toks[it.body_open].start, toks[it.body_close].end
        for at in cfg['ats']:
            pos = body_lo
            found = -1
            for _ in range(at['n'] + 1):
                found = src.find(at['anchor'], pos, body_hi)
                if found < 0:
                    break
                pos = found + 1
            if found < 0:
                self.errors.append('lost anchor: %r #%d in %s (%s)' % (at['anchor'], at['n'], qual, rel))
                continue
            off = found if at['where'] == 'before' else found + len(at['anchor'])
            edits.append((off, 0, '\n' + at['text'].rstrip() + '\n'))
        # R6 `let [mut] X = RECV.peekable();` -> `let [mut] X = vf_peekable(RECV);`
        if cfg['mode'] != 'external_body':
            for j in range(it.body_open, it.body_close - 4):
                if toks[j].text == '.' and toks[j + 1].text == 'peekable' and toks[j + 2].text == '(' and toks[j + 3].text == ')' \
                        and toks[j + 4].text == ';':
                    # walk back to the `=` of the enclosing let at bracket depth 0
                    q = j - 1
                    depth = 0
                    while q > it.body_open:
                        tx = toks[q].text
                        if toks[q].kind == 'punct' and tx in ')]}':
                            depth += 1
                        elif toks[q].kind == 'punct' and tx in '([{':
                            depth -= 1
                        elif tx == '=' and depth == 0 and toks[q].kind == 'punct':
                            break
                        q -= 1
                    if toks[q].text == '=' and toks[q - 1].kind == 'ident':
                        edits.append((toks[q + 1].start, 0, 'vf_peekable('))
                        edits.append((toks[j].start, toks[j + 3].end - toks[j].start, ')'))
                        rules.append('R6')
                    else:
                        self.errors.append('R6: unsupported .peekable() shape in %s' % qual)
        # R8 `= RECV.iter().filter_map(CLOSURE).collect::<Result<Vec<_>, _>>()` -> `= vf_filter_map_collect(RECV, CLOSURE)`
        # (Verus has no specification for iterator adapter chains; the helper is the same chain behind an ASSUMED contract)
        if cfg['mode'] != 'external_body':
            j = it.body_open
            while j < it.body_close - 7:
                tx = [toks[j + d].text for d in range(7)]
                if tx == ['.', 'iter', '(', ')', '.', 'filter_map', '(']:
                    c = match_close(toks, j + 6)
                    ok = c is not None and [toks[c + d].text for d in (1, 2)] == ['.', 'collect'] and toks[c + 3].text in ('::', ':')
                    e = None
                    if ok:
                        e = c + 3
                        while e < it.body_close and toks[e].text != '(':
                            e += 1
                        turbofish = ''.join(toks[x].text for x in range(c + 3, e)).replace(' ', '')
                        ok = toks[e + 1].text == ')' and turbofish == '::<Result<Vec<_>,_>>'
                    q = j - 1
                    depth = 0
                    while ok and q > it.body_open:
                        t2 = toks[q]
                        if t2.kind == 'punct' and t2.text in ')]}':
                            depth += 1
                        elif t2.kind == 'punct' and t2.text in '([{':
                            depth -= 1
                        elif t2.text == '=' and depth == 0 and t2.kind == 'punct':
                            break
                        q -= 1
                    if ok and toks[q].text == '=':
                        edits.append((toks[q + 1].start, 0, 'vf_filter_map_collect('))
                        edits.append((toks[j].start, toks[j + 6].end - toks[j].start, ', '))
                        edits.append((toks[c + 1].start, toks[e + 1].end - toks[c + 1].start, ''))
                        rules.append('R8')
                        j = e
                    else:
                        self.errors.append('R8: unsupported .iter().filter_map() shape in %s' % qual)
                j += 1
        # R9 `RECV.map(|..| ..)` -> `vf_iter_map(RECV, |..| ..)` in functions that ask for it (`@@r9` in the overlay): Verus has no
        # specification for the provided method Iterator::map; the helper is that very call behind an ASSUMED contract
        if cfg['mode'] != 'external_body' and cfg.get('r9'):
            j = it.body_open
            while j < it.body_close - 3:
                if toks[j].text == '.' and toks[j + 1].text == 'map' and toks[j + 2].text == '(' and toks[j + 3].text == '|':
                    c = match_close(toks, j + 2)
                    q = j - 1
                    depth = 0
                    while q > it.body_open:
                        t2 = toks[q]
                        if t2.kind == 'punct' and t2.text in ')]}':
                            depth += 1
                        elif t2.kind == 'punct' and t2.text in '([{':
                            if depth == 0:
                                break
                            depth -= 1
                        elif t2.kind == 'punct' and t2.text == ';' and depth == 0:
                            break
                        q -= 1
                    edits.append((toks[q + 1].start, 0, 'vf_iter_map(', -1))  # before any hint anchored at the same offset
                    edits.append((toks[j].start, toks[j + 2].end - toks[j].start, ', '))
                    rules.append('R9')
                    j = c
                j += 1
        # R1 closure `|_|`
        for j in range(it.body_open, it.body_close - 2):
            if toks[j].text == '|' and toks[j + 1].text == '_' and toks[j + 2].text == '|' and toks[j + 1].kind == 'ident':
                edits.append((toks[j + 1].start, 1, '_x'))
                rules.append('R1')
        # apply edits (stable: by offset, insertion order preserved for equal offsets)
        text = self._apply(src, it.start, it.end, edits, all_toks)
        pre = ''.join(a + '\n' for a in attrs)
        if cfg['mode'] == 'external_body':
            pre += '#[verifier::external_body]\n'
        if cfg.get('attrs'):
            pre += cfg['attrs'] + '\n'
        orig = src[it.start:it.end]
        line_lo = src.count('\n', 0, it.start) + 1
        line_hi = src.count('\n', 0, it.end) + 1
        self.manifest['functions'].append({
            'fn': qual, 'file': rel, 'lines': [line_lo, line_hi], 'mode': cfg['mode'],
            'sha256': hashlib.sha256(orig.encode()).hexdigest(), 'rules': rules,
            'spec_lines': cfg['spec'].count('\n'), 'loop_clauses': len(cfg['loops']), 'hints': len(cfg['ats'])})
        for r in rules:
            self.manifest['rules'].append({'rule': r, 'file': rel, 'item': qual})
        return '//#begin-fn %s :: %s\n' % (rel, qual) + pre + text + '\n//#end-fn\n'

    def _apply(self, src, lo, hi, edits, all_toks):
        # doc comment removal as edits
        for t in all_toks:
            if t.kind == 'doc' and lo <= t.start and t.end <= hi:
                edits.append((t.start, t.end - t.start, ''))
        order = sorted(range(len(edits)), key=lambda i: (edits[i][0], edits[i][3] if len(edits[i]) > 3 else 0, i))
        out = []
        pos = lo
        for i in order:
            off, dl, ins = edits[i][:3]
            if off < pos:
                # overlapping delete; skip
                if dl == 0:
                    out.append(ins)
                continue
            out.append(src[pos:off])
            out.append(ins)
            pos = off + dl
        out.append(src[pos:hi])
        return ''.join(out)

    def _r3(self, src, toks, it):
        """let mut V = I.peek(); ... while let P = V { ...; V = I.peek(); }  ->  while let P = I.peek() {...}"""
        lo, hi = it.body_open, it.body_close
        for j in range(lo, hi - 8):
            if [t.text for t in toks[j:j + 3]] == ['let', 'mut', toks[j + 2].text] and toks[j + 3].text == '=' \
                    and toks[j + 5].text == '.' and toks[j + 6].text == 'peek' and toks[j + 7].text == '(' \
                    and toks[j + 8].text == ')' and toks[j + 9].text == ';':
                V, I = toks[j + 2].text, toks[j + 4].text
                # find `while let <pat> = V {`
                for w in range(j + 10, hi):
                    if toks[w].text == 'while' and toks[w + 1].text == 'let':
                        b = find_body_open(toks, w + 1)
                        if toks[b - 1].text != V or toks[b - 2].text != '=':
                            return None
                        c = match_close(toks, b)
                        # trailing `V = I.peek();`
                        tail = [t.text for t in toks[c - 8:c]]
                        if tail != [V, '=', I, '.', 'peek', '(', ')', ';']:
                            return None
                        # V not otherwise mentioned, no continue in body
                        for q in range(lo, hi):
                            if q in range(j, j + 10) or q == b - 1 or q in range(c - 8, c):
                                continue
                            if toks[q].kind == 'ident' and toks[q].text == V:
                                return None
                            if b < q < c and toks[q].kind == 'ident' and toks[q].text == 'continue':
                                return None
                        edits = [
                            (toks[j].start, toks[j + 9].end - toks[j].start, ''),
                            (toks[b - 1].start, len(V), I + '.peek()'),
                            (toks[c - 8].start, toks[c - 1].end - toks[c - 8].start, ''),
                        ]
                        return {'edits': edits}
                return None
        return None

    # ---- generic item emission -----------------------------------------------------
    def emit_items(self, src, toks, all_toks, items, rel, moddir, header=None, in_trait_impl=False):
        out = []
        for it in items:
            if self._is_test(src, it):
                self.manifest['dropped'].append({'file': rel, 'item': '%s %s' % (it.kind, it.name), 'why': 'test item'})
                continue
            what = '%s %s' % (it.kind, it.name or it.header)
            if it.kind == 'fn':
                out.append(self.emit_fn(src, toks, all_toks, it, rel, header))
                continue
            attrs = self._filter_attrs(src, it, rel, what)
            pre = ''.join(a + '\n' for a in attrs)
            if it.kind == 'mod':
                if it.body_open is None:
                    sub_rel, sub_dir = self._mod_file(rel, moddir, it.name)
                    if sub_rel is None:
                        self.errors.append('module file for %s not found (from %s)' % (it.name, rel))
                        continue
                    head = src[it.start:toks[it.tok_hi].start]  # e.g. `pub mod parser`
                    out.append(pre + head + ' {\n' + self.emit_file(sub_rel, sub_dir) + '\n}\n')
                else:
                    inner = split_items(src, toks, it.body_open + 1, it.body_close)
                    head = src[it.start:toks[it.body_open].start]
                    out.append(pre + head + '{\n' + self.emit_items(src, toks, all_toks, inner, rel, moddir) + '}\n')
                continue
            if it.kind == 'impl':
                icfg = self.ov.impls.get((rel, it.header), {})
                inner = split_items(src, toks, it.body_open + 1, it.body_close)
                any_contract = any((rel, it.header, x.name) in self.ov.fns for x in inner if x.kind == 'fn')
                is_trait_impl = ' for ' in (' ' + it.header + ' ')
                if icfg.get('mode') == 'external' or (is_trait_impl and not any_contract and icfg.get('mode') != 'keep'):
                    self.manifest['external'].append({'file': rel, 'impl': it.header})
                    out.append(pre + '#[verifier::external]\n' + self._strip_docs(src, it.start, it.end, all_toks) + '\n')
                    continue
                body = self.emit_items(src, toks, all_toks, inner, rel, moddir, header=it.header,
                                       in_trait_impl=is_trait_impl)
                extra = icfg.get('extra', '')
                out.append(pre + src[it.start:toks[it.body_open].start] + '{\n' + body + extra + '}\n')
                continue
            key = (rel, it.kind, it.name)
            d = self.ov.items.get(key)
            if d is not None:
                self.ov.used.add(key)
            text = self._strip_docs(src, it.start, it.end, all_toks)
            if d and d[0] == 'drop':
                self.manifest['dropped'].append({'file': rel, 'item': what, 'why': 'overlay'})
                continue
            if d and d[0] == 'replace':
                self.manifest['rules'].append({'rule': 'R4', 'file': rel, 'item': what})
                out.append(d[1])
                continue
            if it.kind in ('const', 'static') and not (d and d[0] == 'keep'):
                self.manifest['external'].append({'file': rel, 'item': what})
                out.append(pre + '#[verifier::external]\n' + text + '\n')
                continue
            if d and d[0] == 'external':
                out.append(pre + '#[verifier::external]\n' + text + '\n')
                continue
            if d and d[0] == 'attr':
                out.append(pre + d[1].rstrip() + '\n' + text + '\n')
                continue
            out.append(pre + text + '\n')
        return ''.join(out)

    def _mod_file(self, rel, moddir, name):
        for cand_rel, cand_dir in ((os.path.join(moddir, name + '.rs'), os.path.join(moddir, name)),
                                   (os.path.join(moddir, name, 'mod.rs'), os.path.join(moddir, name))):
            if os.path.exists(os.path.join(self.src_dir, cand_rel)):
                return cand_rel, cand_dir
        return None, None

    def emit_file(self, rel, moddir):
        path = os.path.join(self.src_dir, rel)
        src = open(path).read()
        all_toks = lex(src)
        toks = [t for t in all_toks if t.kind not in ('comment', 'doc')]
        self.manifest['files'].append({'file': rel, 'sha256': hashlib.sha256(src.encode()).hexdigest()})
        # drop inner attributes / inner docs at file head (#![...])
        items = split_items(src, toks, 0, len(toks))
        body = self.emit_items(src, toks, all_toks, items, rel, moddir)
        extra = self.ov.module_text.get(rel, '')
        head = '' if rel == 'lib.rs' else self.module_head
        return '// ---- begin %s\n' % rel + head + body + extra + '// ---- end %s\n' % rel

    def assemble(self, crate_attrs=''):
        body = self.emit_file('lib.rs', '')
        for key in self.ov.fns:
            if key not in self.ov.used:
                self.errors.append('lost anchor: function %s | %s | %s not found' % key)
        for key in self.ov.items:
            if key not in self.ov.used:
                self.errors.append('lost anchor: item %s %s %s not found' % key)
        head = crate_attrs + '\nuse vstd::prelude::*;\nverus! {\n'
        vspec = 'pub mod vspec {\n#[allow(unused_imports)] use vstd::prelude::*;\n' + self.ov.root_text + '\n} // mod vspec\n#[allow(unused_imports)] use crate::vspec::*;\n'
        return head + vspec + body + '\n} // verus!\n'
