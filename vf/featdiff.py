"""C20 (bounded): the observation program featdiff/ built against the real crates under every combination of the optional cargo
features; the outputs must be identical line by line (the program uses no feature-only API)."""
import os
import shutil

from . import common

CONFIGS = [('none', ''), ('likelysubtags', 'likely'), ('serde', 'serde'), ('likelysubtags+serde', 'likely,serde')]
_bins = None


def build_all():
    global _bins
    if _bins is not None:
        return _bins
    src = os.path.join(common.VERIF, 'featdiff')
    base = common.BUILD
    if os.path.realpath(common.REPO) != '/repo':
        dst = os.path.join(common.scratch(), 'featdiff')
        shutil.copytree(src, dst, dirs_exist_ok=True)
        ct = open(os.path.join(dst, 'Cargo.toml')).read().replace('/repo/', common.REPO.rstrip('/') + '/')
        open(os.path.join(dst, 'Cargo.toml'), 'w').write(ct)
        src, base = dst, common.scratch()
    bins = {}
    for name, feats in CONFIGS:
        tdir = os.path.join(base, 'featdiff-target-' + (feats.replace(',', '_') or 'none'))
        cmd = ['cargo', 'build', '--offline', '--release', '--target-dir', tdir]
        if feats:
            cmd += ['--features', feats]
        r = common.run(cmd, cwd=src, timeout=900)
        b = os.path.join(tdir, 'release', 'featdiff')
        if r['rc'] != 0 or not os.path.exists(b):
            raise RuntimeError('featdiff could not be built with features [%s]: %s' % (feats, (r['err'] or '')[-600:]))
        bins[name] = b
    _bins = bins
    return bins


def _dump(b):
    r = common.run([b, 'dump'], timeout=600)
    if r['rc'] != 0:
        raise RuntimeError('featdiff dump failed (rc=%s): %s' % (r['rc'], (r['err'] or '')[-400:]))
    return r['out'].split('\n')


def search():
    """First observation that differs between the feature-less build and a build with optional features, or None."""
    bins = build_all()
    base = _dump(bins['none'])
    for name, _ in CONFIGS[1:]:
        other = _dump(bins[name])
        n = min(len(base), len(other))
        for i in range(n):
            if base[i] != other[i]:
                key = base[i].split(' => ')[0]
                return {'kind': 'featdiff', 'key': key, 'configs': ['none', name], 'found_by': 'featdiff dump (line %d)' % (i + 1),
                        'desc': 'observation `%s` differs between feature sets: [none] %s  |  [%s] %s' % (
                            key, base[i].split(' => ', 1)[-1][:160], name, other[i].split(' => ', 1)[-1][:160])}
        if len(base) != len(other):
            return {'kind': 'featdiff', 'key': '', 'configs': ['none', name], 'found_by': 'featdiff dump',
                    'desc': 'the number of observations differs between feature sets: %d vs %d' % (len(base), len(other))}
    return None


def count():
    return len(_dump(build_all()['none'])) - 1


def replay(inp):
    bins = build_all()
    a, b = inp['configs']
    ra = common.run([bins[a], 'one', inp['key']], timeout=600)
    rb = common.run([bins[b], 'one', inp['key']], timeout=600)
    if ra['out'] != rb['out'] or ra['rc'] != rb['rc']:
        return True, 'DISAGREE `%s`: [%s] %s | [%s] %s' % (inp['key'], a, ra['out'].strip().split(' => ', 1)[-1][:200], b, rb['out'].strip().split(' => ', 1)[-1][:200])
    return False, 'AGREE `%s` is the same under [%s] and [%s]' % (inp['key'], a, b)
