"""Property check driver: runs the verification units a property depends on, names every
obligation, classifies the run, writes evidence and replay files."""
import json
import os
import re
import sys
import time

from . import common, verus, kani, props, witness


class Ctx:
    def __init__(self, tier, verbose=False):
        self.tier = tier
        self.verbose = verbose
        self.work = common.scratch()
        self.repo_copy = None
        self._verus = {}
        self._export = {}
        self._kani = {}
        self._gen = {}
        self.cmds = []

    def log(self, *a):
        if self.verbose:
            print('[vf]', *a, file=sys.stderr, flush=True)

    def repo(self):
        if self.repo_copy is None:
            self.repo_copy = common.copy_repo(os.path.join(self.work, 'repo'))
        return self.repo_copy

    def verus_result(self, crate, features=()):
        key = (crate, tuple(features))
        if key in self._verus:
            return self._verus[key]
        sub = os.path.join(self.work, 'verus_' + '_'.join((crate,) + tuple(features)))
        os.makedirs(sub, exist_ok=True)
        t0 = time.time()
        if crate == 'bridge':
            r = verus.run_bridge(sub)
        elif crate == 'langid':
            r = verus.run_crate('langid', sub, self.repo(), features)
        elif crate == 'locale':
            lf = tuple(f for f in features if f == 'likelysubtags')
            lr = self.verus_result('langid', lf)
            ek = ('langid', lf)
            if ek not in self._export:
                lsub = os.path.dirname(lr['path'])
                self._export[ek] = verus.export_crate('langid', lsub, lf)
            ok, rlib, vir, er = self._export[ek]
            if not ok:
                r = {'compile_failed': True, 'functions': {}, 'diags': [], 'stderr_tail': (er['err'] or '')[-3000:],
                     'assemble_errors': ['langid crate could not be exported: locale crate not checked'], 'cached': False,
                     'wall_s': 0, 'smt_ms': 0, 'verified': 0, 'errors': 0, 'manifest': {'functions': [], 'rules': []},
                     'cmd': 'verus (export langid)', 'timeout': False}
            else:
                r = verus.run_crate('locale', sub, self.repo(), features,
                                    deps={'unic_langid_impl': (rlib, vir, lr['text_sha256'])})
        else:
            raise KeyError(crate)
        self.log('verus', crate, features, 'verified', r.get('verified'), 'errors', r.get('errors'), 'cached', r.get('cached'),
                 '%.1fs' % (time.time() - t0))
        self._verus[key] = r
        return r

    def mustfail(self, crate):
        key = ('mustfail', crate)
        if key in self._gen:
            return self._gen[key]
        sub = os.path.join(self.work, 'mustfail_' + crate)
        os.makedirs(sub, exist_ok=True)
        deps = None
        if crate == 'locale':
            lr = self.verus_result('langid', ())
            ek = ('langid', ())
            if ek not in self._export:
                self._export[ek] = verus.export_crate('langid', os.path.dirname(lr['path']), ())
            ok, rlib, vir, er = self._export[ek]
            deps = {'unic_langid_impl': (rlib, vir, lr['text_sha256'])} if ok else None
        rec = {'name': 'mustfail:%s' % crate, 'engine': 'scan', 'backend': 'verus (must-fail variants)'}
        if crate == 'locale' and deps is None:
            rec.update({'status': 'undecided', 'why': 'langid crate could not be exported'})
        else:
            r = verus.run_mustfail(crate, sub, self.repo(), (), deps=deps)
            mf = r.get('mustfail', {})
            rec['checks'] = len(mf.get('names', []))
            rec['time_s'] = (r.get('smt_ms') or 0) / 1000.0
            rec['cached'] = r.get('cached', False)
            if r.get('compile_failed') or r.get('assemble_errors') or set(mf.get('seen', [])) != set(mf.get('names', [])):
                rec.update({'status': 'undecided', 'why': 'must-fail variants could not be checked (crate did not assemble / compile)'})
            elif mf.get('accepted'):
                rec.update({'status': 'undecided', 'why': 'VACUITY: must-fail variant(s) verified: %s (contradictory assumption?)' % ', '.join(mf['accepted'])})
            else:
                rec['status'] = 'proved'
        self._gen[key] = rec
        return rec

    def gen_text(self, which):
        if which not in self._gen:
            from . import gen
            self._gen[which] = gen.generate(which, self.repo())
        return self._gen[which]

    def kani_results(self, unit, harnesses, timeout, playback=False, jobs=None):
        todo = [h for h in harnesses if (unit, h) not in self._kani or playback]
        if todo:
            u = kani.unit_def(unit)
            gen_text = self.gen_text(u['gen']) if u.get('gen') else ''
            t0 = time.time()
            res = kani.run_unit(unit, todo, self.repo(), gen_text=gen_text, timeout=timeout, playback=playback, **({'jobs': jobs} if jobs else {}))
            self.log('kani', unit, todo, {h: r['status'] for h, r in res.items()}, '%.1fs' % (time.time() - t0))
            if playback:
                return res
            for h, r in res.items():
                self._kani[(unit, h)] = r
        return {h: self._kani[(unit, h)] for h in harnesses}


def collect(prop, ctx):
    """Run everything the property needs; return list of obligation records."""
    spec = props.PROPS[prop]
    obs = []
    # ---- verus
    for v in spec.get('verus', []):
        if v.get('tier') == 'thorough' and ctx.tier != 'thorough':
            obs.append({'name': 'verus:%s:%s' % (v['crate'], v['pattern']), 'engine': 'verus', 'status': 'deferred',
                        'why': 'thorough tier only'})
            continue
        r = ctx.verus_result(v['crate'], v.get('features', ()))
        feats = ','.join(v.get('features', ()))
        tag = v['crate'] + ('[' + feats + ']' if feats else '')
        if r.get('assemble_errors'):
            obs.append({'name': 'verus:%s:%s' % (tag, v['pattern']), 'engine': 'verus', 'status': 'undecided',
                        'why': '; '.join(r['assemble_errors'])[:500]})
            continue
        if r.get('compile_failed') or r.get('timeout'):
            why = 'verus could not process the extracted crate (compile error / unsupported construct / timeout)'
            others = [d for d in r.get('diags', []) if d['kind'] != 'verify']
            if others:
                why += ': ' + others[0]['head'][:200] + (' @ ' + (others[0].get('fn') or '?'))
            obs.append({'name': 'verus:%s:%s' % (tag, v['pattern']), 'engine': 'verus', 'status': 'undecided', 'why': why,
                        'detail': r.get('stderr_tail', '')[-1500:]})
            continue
        pat = re.compile(v['pattern'])
        names = [n for n in r['functions'] if pat.search(n) and not re.search(r'::axiom_\w+$', n)]
        # functions whose hint anchors were lost (body restructured): contract kept, body not verified -> UNDECIDED
        ndeg = 0
        for d in (r.get('manifest') or {}).get('degraded', []):
            cand = _degraded_name(v['crate'], d)
            if pat.search(cand):
                ndeg += 1
                obs.append({'name': 'verus:%s:%s' % (tag, cand), 'engine': 'verus', 'status': 'undecided',
                            'why': 'function body was restructured, proof hints no longer apply (%s)' % '; '.join(d['errors'])[:400]})
        if not names and ndeg:
            continue
        if not names:
            obs.append({'name': 'verus:%s:%s' % (tag, v['pattern']), 'engine': 'verus', 'status': 'undecided',
                        'why': 'lost anchor: no verified function matches'})
            continue
        for n in sorted(names):
            f = r['functions'][n]
            short = n.split('::', 1)[1] if '::' in n else n
            diags = [d for d in r['diags'] if d.get('fn') and _fn_match(d['fn'], n)]
            rec = {'name': 'verus:%s:%s' % (tag, n), 'engine': 'verus', 'backend': 'verus+z3', 'time_s': f['time_us'] / 1e6,
                   'rlimit': f['rlimit'], 'cached': r.get('cached', False), 'mode': f.get('mode', '')}
            if f['success']:
                rec['status'] = 'proved'
            else:
                kinds = set(d['kind'] for d in diags)
                if diags and kinds <= {'rlimit'}:
                    rec['status'] = 'undecided'
                    rec['why'] = 'rlimit'
                else:
                    rec['status'] = 'failed'
                    rec['failed'] = [{'what': d['head'][7:], 'clause': d['clause'], 'line': d['line']} for d in diags if d['kind'] == 'verify']
                    rec['detail'] = '\n\n'.join(d['text'] for d in diags)[:6000]
            obs.append(rec)
    # ---- vacuity guard: must-fail variants of every Verus crate the property uses (not counted as obligations)
    for crate in sorted(set(v['crate'] for v in spec.get('verus', []) if v['crate'] in ('langid', 'locale'))):
        obs.append(ctx.mustfail(crate))
    # ---- syntactic scans (feature-gated code sites)
    for sc in spec.get('scan', []):
        from . import scan
        obs.extend(scan.run(sc, ctx.repo()))
    # ---- bounded obligations on the real library (labelled bounded, never counted as discharged)
    for b in spec.get('bounded', []):
        t0 = time.time()
        try:
            inp = witness.search_kind(b['kind'], 0)
            err = None
        except Exception as ex:  # pragma: no cover
            inp, err = None, str(ex)
        rec = {'name': 'bounded:%s' % b['kind'], 'engine': 'bounded', 'backend': 'exhaustive enumeration on the real library (witness crate)',
               'time_s': round(time.time() - t0, 2), 'bounded': b['bound']}
        if err or not witness.build():
            rec['status'] = 'undecided'
            rec['why'] = 'witness binary could not be built / run: %s' % (err or '')
        elif inp:
            rec['status'] = 'failed'
            rec['failed'] = [{'what': 'bounded check on the real library: ' + inp.get('desc', '')[:300]}]
            rec['standin_input'] = inp
        else:
            rec['status'] = 'proved'
        obs.append(rec)
    # ---- kani
    by_unit = {}
    for k in spec.get('kani', []):
        if k.get('tier') == 'thorough' and ctx.tier != 'thorough':
            obs.append({'name': 'kani:%s:%s' % (k['unit'], k['harness']), 'engine': 'kani', 'status': 'deferred',
                        'why': 'thorough tier only (measured %s)' % k.get('cost', '> 2 min')})
            continue
        by_unit.setdefault((k['unit'], k.get('jobs')), []).append(k)
    for (unit, jobs), ks in by_unit.items():
        timeout = max(k.get('timeout', 600) for k in ks)
        res = ctx.kani_results(unit, [k['harness'] for k in ks], timeout, jobs=jobs)
        for k in ks:
            r = res[k['harness']]
            rec = {'name': 'kani:%s:%s' % (unit, k['harness']), 'engine': 'kani', 'backend': 'kani+cbmc', 'time_s': r.get('time_s'),
                   'checks': r.get('checks', 0), 'cached': r.get('cached', False), 'unit': unit, 'harness': k['harness']}
            if k.get('bounded'):
                rec['bounded'] = k['bounded']
            if r['status'] == 'success':
                rec['status'] = 'proved'
                if r.get('covers') and r['covers'][0] != r['covers'][1]:
                    rec['status'] = 'undecided'
                    rec['why'] = 'vacuity guard: only %d of %d cover properties satisfied' % tuple(r['covers'])
            elif r['status'] == 'failed':
                fc = r.get('failed_checks', [])
                if fc and all(('unwinding assertion' in x or 'unsupported' in x.lower()) for x in fc):
                    rec['status'] = 'undecided'
                    rec['why'] = 'unwinding bound / unsupported construct: ' + '; '.join(fc)[:300]
                else:
                    rec['status'] = 'failed'
                    rec['failed'] = [{'what': x} for x in fc]
            else:
                rec['status'] = 'undecided'
                rec['why'] = r['status'] + ': ' + (r.get('detail', '') or '; '.join(r.get('failed_checks', [])))[-800:]
            obs.append(rec)
    return obs


def _degraded_name(crate, d):
    """Verus-style path of a degraded function, e.g. unic_locale_impl::extensions::unicode::UnicodeExtensionList::set_keyword."""
    mod = d['file'][:-3].replace('/', '::')
    mod = re.sub(r'(^|::)(lib|mod)$', '', mod)
    ty = ''
    if d['header'].startswith('impl'):
        ty = re.sub(r'^impl(<[^>]*>)?\s*', '', d['header']).split(' for ')[-1].split('<')[0].strip().split('::')[-1]
    parts = [verus.CRATES[crate]['name']] + [x for x in (mod, ty, d['fn']) if x]
    return '::'.join(parts)


def _fn_match(diag_fn, verus_name):
    """diag_fn like 'parser/mod.rs :: parse_language_identifier_from_iter' or 'x :: impl Foo :: bar' or 'lemma :: name'."""
    last = diag_fn.split('::')[-1].strip()
    vlast = verus_name.split('::')[-1]
    if last != vlast:
        return False
    parts = [p.strip() for p in diag_fn.split('::')]
    if len(parts) >= 3 and parts[-2].startswith('impl'):
        ty = re.sub(r'^impl(<[^>]*>)?\s*', '', parts[-2]).split(' for ')[-1].split('<')[0].strip()
        return ty.split('::')[-1] in verus_name
    return True


def load_known():
    """known_findings.txt: `finding: property=Cxx obligation=<name> match=<regex> what=<free text>` suppress a
    specific failing obligation+clause; `fixed: property=Cxx <commit> <what>` lines suppress nothing."""
    p = os.path.join(common.VERIF, 'known_findings.txt')
    out = []
    if os.path.exists(p):
        for line in open(p):
            line = line.strip()
            if line.startswith('finding:'):
                m = re.match(r'finding:\s+property=(\S+)\s+obligation=(\S+)\s+match=(\S+)\s+what=(.*)$', line)
                if m:
                    out.append({'status': 'finding', 'property': m.group(1), 'obligation': m.group(2),
                                'failed_match': [m.group(3)], 'what': m.group(4)})
    return out


def is_known(prop, rec, known):
    for k in known:
        if k.get('status') != 'finding' or k.get('property') != prop:
            continue
        if k.get('obligation') != rec['name']:
            continue
        pats = k.get('failed_match')
        whats = [f.get('what', '') + ' ' + f.get('clause', '') for f in rec.get('failed', [])]
        if pats is None or (whats and all(any(re.search(p, w) for p in pats) for w in whats)):
            return k
    return None


def check(prop, tier, seed, verbose=False, list_only=False):
    if prop not in props.PROPS:
        na = props.NOT_APPLICABLE.get(prop)
        if na:
            print('NOT-APPLICABLE property=%s %s' % (prop, na))
            return 0
        print('unknown property', prop)
        return 2
    t0 = time.time()
    common.ensure_setup()
    ctx = Ctx(tier, verbose)
    spec = props.PROPS[prop]
    if list_only:
        print(json.dumps(spec, indent=1, default=str))
        return 0
    obs = collect(prop, ctx)
    known = load_known()
    failed = [o for o in obs if o['status'] == 'failed']
    undec = [o for o in obs if o['status'] == 'undecided']
    proved = [o for o in obs if o['status'] == 'proved' and not o.get('bounded') and o['engine'] != 'scan']
    bounded = [o for o in obs if o['status'] == 'proved' and o.get('bounded')]
    deferred = [o for o in obs if o['status'] == 'deferred']
    os.makedirs(os.path.join(common.OUT, 'replays'), exist_ok=True)
    violations = 0
    lines = []
    for o in failed:
        k = is_known(prop, o, known)
        if k:
            lines.append('KNOWN-FINDING: property=%s %s (%s)' % (prop, k.get('what', ''), o['name']))
            o['known_finding'] = True
            continue
        violations += 1
        rp = witness.make_replay(prop, o, ctx)
        tail = '' if rp['has_input'] else ' no-failing-input-found'
        lines.append('VIOLATION property=%s replay=%s%s' % (prop, rp['path'], tail))
        lines.append('  failed obligation: %s' % o['name'])
        for f in o.get('failed', [])[:5]:
            lines.append('    %s %s' % (f.get('what', ''), ('| ' + f['clause']) if f.get('clause') else ''))
        if rp.get('summary'):
            lines.append('  replay: %s' % rp['summary'])
    # bounded stand-in: when a deductive obligation is UNDECIDED (construct outside the verifier's reach), the real
    # function is compared with the executable reference of its contract over the bounded token space; a
    # disagreement that replays on the real code is reported as a violation, labelled bounded
    standin = []
    if undec and spec.get('standin'):
        for kind in spec['standin']:
            try:
                inp = witness.search_kind(kind, seed)
            except Exception as ex:  # pragma: no cover
                inp = None
            standin.append({'kind': kind, 'found': inp})
            if inp:
                o = {'name': 'standin:%s' % kind, 'engine': 'bounded-standin', 'status': 'failed',
                     'failed': [{'what': 'bounded stand-in (deductive check undecided: %s): real code disagrees with the reference of the contract' % (undec[0].get('why') or '')[:160],
                                 'clause': inp.get('desc', '')}], 'standin_input': inp}
                failed.append(o)
                violations += 1
                rp = witness.make_replay(prop, o, ctx)
                lines.append('VIOLATION property=%s replay=%s' % (prop, rp['path']))
                lines.append('  bounded stand-in for undecided obligation(s): %s' % ', '.join(u['name'] for u in undec[:3]))
                lines.append('  replay: %s' % rp.get('summary', ''))
    ctx.standin = standin
    wall = time.time() - t0
    write_evidence(prop, tier, seed, spec, obs, proved, bounded, deferred, failed, undec, violations, wall, ctx)
    for ln in lines:
        print(ln)
    print('%s tier=%s: %d obligations proved, %d bounded, %d deferred, %d failed, %d undecided (%.1fs)' % (
        prop, tier, len(proved), len(bounded), len(deferred), len(failed), len(undec), wall))
    if violations:
        return 1
    if undec:
        for o in undec[:10]:
            print('UNDECIDED property=%s obligation=%s reason=%s' % (prop, o['name'], (o.get('why') or '')[:400].replace('\n', ' ')))
        return 2
    return 0


def write_evidence(prop, tier, seed, spec, obs, proved, bounded, deferred, failed, undec, violations, wall, ctx):
    fns = []
    rules = []
    for key, r in ctx._verus.items():
        m = r.get('manifest') or {}
        for f in m.get('functions', []):
            fns.append({'crate': key[0], 'features': list(key[1]), **f})
        for ru in m.get('rules', []):
            if ru.get('rule') != 'R2':
                rules.append({'crate': key[0], **ru})
    trusted = list(props.TRUSTED_BASE) + list(spec.get('trusted', []))
    samples = []
    for o in (proved + bounded)[:6]:
        samples.append({k: o[k] for k in ('name', 'engine', 'status', 'time_s', 'checks', 'bounded', 'rlimit') if k in o})
    for o in (failed + undec)[:4]:
        samples.append({k: o[k] for k in ('name', 'engine', 'status', 'why', 'failed') if k in o})
    cmds = sorted(set([r.get('cmd', '') for r in ctx._verus.values() if r.get('cmd')] +
                      [r.get('cmd', '') for r in ctx._kani.values() if r.get('cmd')]))
    ev = {
        'property_id': prop, 'tier': tier, 'seed': seed, 'level': 'proof',
        'coverage': {
            'obligations': len(proved) + len([o for o in failed if not o.get('known_finding')]) + len(undec),
            'known_findings': [{'name': o['name'], 'failed': o.get('failed')} for o in failed if o.get('known_finding')],
            'discharged': len(proved),
            'checker_cmd': './check %s --tier %s   [runs: %s]' % (prop, tier, ' ;; '.join(c[:400] for c in cmds[:6]) or 'all results from content-addressed cache'),
            'trusted_base': trusted,
            'samples': samples,
            'explanation': spec.get('explanation', ''),
            'bounded_obligations': [{'name': o['name'], 'bound': o['bounded'], 'status': o['status']} for o in bounded],
            'bounded_count_not_in_discharged': len(bounded),
            'deferred': [{'name': o['name'], 'why': o.get('why')} for o in deferred],
            'guards_not_counted': [{'name': o['name'], 'status': o['status'], 'items': o.get('checks'), 'what': o.get('backend')} for o in obs if o['engine'] == 'scan'],
            'bounded_standin_runs': getattr(ctx, 'standin', []),
            'failed': [{'name': o['name'], 'failed': o.get('failed'), 'known_finding': o.get('known_finding', False)} for o in failed],
            'undecided': [{'name': o['name'], 'why': o.get('why')} for o in undec],
            'per_obligation': [{k: o.get(k) for k in ('name', 'engine', 'backend', 'status', 'time_s', 'checks', 'rlimit', 'cached', 'bounded', 'mode') if o.get(k) is not None} for o in obs],
            'solver_time_s': round(sum((o.get('time_s') or 0) for o in obs), 3),
            'kani_cbmc_checks': sum(o.get('checks', 0) for o in obs if o['engine'] == 'kani' and o['status'] == 'proved'),
            'functions_under_contract': fns,
            'rewrite_rules_applied': rules,
            'verus_units': [{'crate': k[0], 'features': list(k[1]), 'verified': r.get('verified'), 'errors': r.get('errors'),
                             'smt_ms': r.get('smt_ms'), 'cached': r.get('cached'), 'text_sha256': r.get('text_sha256'),
                             'external_items': len((r.get('manifest') or {}).get('external', [])),
                             'assumption_scan': r.get('assumption_scan')} for k, r in ctx._verus.items()],
            'tool_versions': common.tool_versions(),
        },
        'assumptions': trusted,
        'wall_s': round(wall, 2),
        'violations': violations,
    }
    os.makedirs(os.path.join(common.OUT, 'evidence'), exist_ok=True)
    p = os.path.join(common.OUT, 'evidence', prop + '.json')
    json.dump(ev, open(p, 'w'), indent=1)


def replay(prop, path):
    return witness.run_replay(prop, path)
