"""Property -> obligations.  V(...) = Verus functions (regex over verified function names),
K(...) = Kani harness.  `bounded` marks an obligation that is only a bounded stand-in."""


def V(crate, pattern, features=(), tier=None):
    d = {'crate': crate, 'pattern': pattern, 'features': tuple(features)}
    if tier:
        d['tier'] = tier
    return d


def K(unit, harness, bounded=None, tier=None, timeout=600, cost=None):
    d = {'unit': unit, 'harness': harness, 'timeout': timeout}
    if bounded:
        d['bounded'] = bounded
    if tier:
        d['tier'] = tier
    if cost:
        d['cost'] = cost
    return d


TRUSTED_BASE = [
    'soundness of Verus 0.2026.09.13 + Z3 and of Kani 0.68 + CBMC 6.11 (+ the SAT back end)',
    'rustc: the code Kani verifies (MIR of the scratch copy of /repo, add-only harness module) is the code that runs',
    'Verus side: std/alloc contracts in contracts/verus/prelude.rs (Peekable::peek/next as a ghost sequence, sort_unstable, dedup, into_boxed_slice, ...) are ASSUMED',
    'Verus side: bodies of tinystr are not seen; every fact about TinyAsciiStr is a leaf contract that Kani proves on the real tinystr (assumed on the Verus side)',
    "rustc #[derive] semantics for PartialEq/Eq/Ord/Hash/Default/Clone on the library's structs",
    'heap allocation never fails; machine integers are machine integers in both tools (overflow checked)',
    'Kani leaf harnesses quantify over every byte string of length <= 16 (N=16 symbolic buffer + symbolic length) and over-long inputs up to 64 bytes; longer inputs are assumed to behave like those (every leaf function checks the length before reading any byte)',
]

LEAF_LID = ['leaf_language_from_bytes', 'leaf_script_from_bytes', 'leaf_region_from_bytes', 'leaf_variant_from_bytes',
            'leaf_from_bytes_overlong']
BRIDGE_LID = r'::x_(is_language|is_script|is_region|is_variant|eq_lower|eq_upper|eq_title|all_alpha|all_digit|all_alnum|alpha|digit|alnum|lower_b|upper_b)$'

PROPS = {
    'C15': {
        'kani': [K('langid_leaf', h) for h in LEAF_LID + ['leaf_language_default_is_und']],
        'verus': [V('bridge', BRIDGE_LID)],
        'explanation': 'each subtag from_bytes is checked by Kani on the real code (real tinystr) against the UTS #35 production '
                       'for every byte string; the production predicates are the exec functions of contracts/leaf_preds.rs, which '
                       'Verus proves equal to the spec functions the property is stated with',
    },
    'C02': {
        'kani': [K('langid_leaf', h) for h in LEAF_LID],
        'verus': [V('bridge', BRIDGE_LID),
                  V('langid', r'::parser::parse_language_identifier_from_iter$'),
                  V('langid', r'::lemma_(sorted_dedup_variants|var_run|classes_disjoint|lex_\w+|adjacent_\w+|toks_skip)$')],
        'explanation': 'parse_language_identifier_from_iter (verbatim text, loop invariant + decreases) returns exactly the value / error '
                       'the grammar of C02 prescribes for every subtag sequence; leaf contracts are discharged by Kani',
    },
}

NOT_APPLICABLE = {
    'C16': 'compile-time macro expansion (proc_macro::TokenStream, compile success/failure) is outside any function contract; see DESIGN.md',
}
