"""Property -> obligations.  V(...) = Verus functions (regex over verified function names),
K(...) = Kani harness.  `bounded` marks an obligation that is only a bounded stand-in."""


def V(crate, pattern, features=(), tier=None):
    d = {'crate': crate, 'pattern': pattern, 'features': tuple(features)}
    if tier:
        d['tier'] = tier
    return d


def B(kind, bound):
    """bounded obligation on the real library (witness crate, exhaustive over a stated finite space); never counted as proved"""
    return {'kind': kind, 'bound': bound}


def K(unit, harness, bounded=None, tier=None, timeout=600, cost=None, jobs=None):
    d = {'unit': unit, 'harness': harness, 'timeout': timeout}
    if bounded:
        d['bounded'] = bounded
    if tier:
        d['tier'] = tier
    if cost:
        d['cost'] = cost
    if jobs:
        d['jobs'] = jobs  # memory-heavy harnesses: at most this many CBMC processes at once
    return d


TRUSTED_BASE = [
    'soundness of Verus 0.2026.09.13 + Z3 and of Kani 0.68 + CBMC 6.11 (+ the SAT back end)',
    'rustc: the code Kani verifies (MIR of the scratch copy of /repo, add-only harness module) is the code that runs',
    'Verus side: std/alloc contracts in contracts/verus/prelude.rs (Peekable::peek/next and Iterator::next (vf_iter_next, R10) as a ghost sequence, sort_unstable, dedup, into_boxed_slice, ...) are ASSUMED',
    'Verus side: bodies of tinystr are not seen; every fact about TinyAsciiStr is a leaf contract that Kani proves on the real tinystr (assumed on the Verus side)',
    "rustc #[derive] semantics for PartialEq/Eq/Ord/Hash/Default/Clone on the library's structs (Verus side: PartialEqSpecImpl of the four subtag types states that the "
    "derived == is structural; `Box<[P]> == Box<[P]>` is element-wise `P::eq` (axiom_box_slice_eq); Kani proves the derived ==/cmp of the subtag types and of "
    "LanguageIdentifier on the compiled code)",
    'Verus side: Option::map_or / map_or_else, Borrow::borrow and AsRef::as_ref as pure functions, BTreeMap iteration / keys() in strictly increasing key order (axiom_btree_iter_sorted, axiom_btree_keys_sorted)',
    'heap allocation never fails; machine integers are machine integers in both tools (overflow checked)',
    'Kani leaf harnesses quantify over every byte string of length <= 16 (N=16 symbolic buffer + symbolic length) and over-long inputs up to 64 bytes; longer inputs are assumed to behave like those (every leaf function checks the length before reading any byte)',
]

LEAF_LID = ['leaf_language_from_bytes', 'leaf_script_from_bytes', 'leaf_region_from_bytes', 'leaf_variant_from_bytes',
            'leaf_from_bytes_overlong']
BRIDGE_LID = r'::x_(is_language|is_script|is_region|is_variant|eq_lower|eq_upper|eq_title|all_alpha|all_digit|all_alnum|alpha|digit|alnum|lower_b|upper_b)$'

LOCALE_LEAF = [K('locale_unicode_leaf', h) for h in ['leaf_parse_key', 'leaf_parse_type', 'leaf_parse_attribute', 'leaf_is_type_is_attribute', 'leaf_unicode_overlong']] + \
    [K('locale_transform_leaf', h) for h in ['leaf_parse_tkey', 'leaf_parse_tvalue', 'leaf_is_language_subtag', 'leaf_transform_overlong']] + \
    [K('locale_private_leaf', h) for h in ['leaf_parse_value', 'leaf_private_overlong']] + \
    [K('locale_leaf', h) for h in ['leaf_extension_type_from_byte', 'default_is_empty', 'tinystr8_eq_ord_is_text', 'tinystr4_eq_ord_is_text']]
PRIVATE_BOUNDED = K('locale_private_leaf', 'private_try_from_iter_bounded',
                    bounded='PrivateExtensionList::try_from_iter (also proved unbounded in Verus on the real text, rule R10; this re-checks the compiled code): <= 2 subtags of <= 3 symbolic bytes, sort_unstable stubbed by a 2-element sort',
                    tier='thorough', timeout=1800, cost='65-240 s')
BRIDGE_ALL = r'::x_\w+$'
LID_LEMMAS = r'::(lemma_(sorted_dedup_variants|var_run\w*|classes_disjoint|lex_\w+|adjacent_\w+|toks_skip|split_nonempty|first_sep_bounds)|first_sep_by|split_by|var_run|lex_le)$'
LID_PARSER = [V('langid', r'::parser::parse_language_identifier_from_iter$'), V('langid', r'::parser::parse_language_identifier$'),
              V('langid', r'::LanguageIdentifier::(from_bytes|try_from_iter|from_str)$'), V('langid', r'::LanguageIdentifierError::from$'),
              V('langid', LID_LEMMAS)]
LOC_LEMMAS = r'::vspec::(lemma_\w+|ext_parse|kv_fold|last_key|tf_end|u_end|u_first_key)$'
LOC_PARSER = [V('locale', r'::(UnicodeExtensionList|TransformExtensionList|PrivateExtensionList)::try_from_iter$'),
              V('locale', r'::ExtensionsMap::(try_from_iter|from_bytes)$'),
              V('locale', r'::parser::parse_locale$'), V('locale', r'::Locale::(from_bytes|from_str)$'), V('locale', r'::ExtensionsMap::from_str$'),
              V('locale', r'::(LocaleError|ParserError)::from$'), V('locale', LOC_LEMMAS)]

PROPS = {
    'C15': {
        'kani': [K('langid_leaf', h) for h in LEAF_LID + ['leaf_language_default_is_und']],
        'verus': [V('bridge', BRIDGE_LID)],
        'explanation': 'each subtag from_bytes is checked by Kani on the real code (real tinystr) against the UTS #35 production '
                       'for every byte string; the production predicates are the exec functions of contracts/leaf_preds.rs, which '
                       'Verus proves equal to the spec functions the property is stated with',
    },
    'C02': {
        'kani': [K('langid_leaf', h) for h in LEAF_LID] + [K('langid_wrap', 'wrappers_agree_with_parser')],
        'verus': [V('bridge', BRIDGE_LID)] + LID_PARSER,
        'standin': ['lid'],
        'explanation': 'parse_language_identifier_from_iter (verbatim text, loop invariant + decreases) returns exactly the value / error '
                       'the grammar of C02 prescribes for every subtag sequence; leaf contracts are discharged by Kani',
    },
}

PROPS.update({
    'C01': {
        'kani': [K('langid_leaf', h) for h in LEAF_LID + ['leaf_language_default_is_und']] + LOCALE_LEAF + [PRIVATE_BOUNDED],
        'verus': [V('bridge', BRIDGE_ALL)] + LID_PARSER + LOC_PARSER,
        'standin': ['lid', 'locale'],
        'explanation': 'every parser function verifies in Verus, which includes for all inputs: no reachable panic!/unimplemented!/unwrap-on-None, '
                       'indices in bounds, no overflow, and a decreases measure on every loop (termination, unbounded input length); the byte-level '
                       'leaf functions are panic-/overflow-/bounds-free for all byte strings by Kani on the real tinystr code',
    },
    'C03': {
        'kani': [K('langid_leaf', h) for h in LEAF_LID] + LOCALE_LEAF + [PRIVATE_BOUNDED],
        'verus': [V('bridge', BRIDGE_ALL)] + LID_PARSER + LOC_PARSER,
        'standin': ['lid', 'locale'],
        'explanation': 'Locale::from_bytes == the recogniser ext_parse/lid grammar written from the UTS #35 productions of the statement: Ok exactly '
                       'when the recogniser accepts, and the value holds exactly the recognised subtags in normalised form (nothing dropped or '
                       'reinterpreted); multi-character / repeated / unknown singletons, second tlang, malformed or misplaced subtags => Err',
    },
    'C13': {
        'kani': [K('langid_leaf', h) for h in LEAF_LID] + [K('locale_leaf', 'default_is_empty')],
        'verus': LID_PARSER + [V('locale', r'::parser::parse_locale$'), V('locale', r'::Locale::from_bytes$'),
                               V('locale', r'::ExtensionsMap::try_from_iter$'),
                               V('locale', r'::lemma_c13_\w+$'), V('locale', r'::lemma_var_run_take$'),
                               V('locale', r'::(Locale|LanguageIdentifier)::from$')],
        'explanation': 'both parsers share the verified parse_language_identifier_from_iter; lemma_c13_superset/_reject/_prefix derive the three clauses '
                       'from the two contracts; the From conversions are verified verbatim',
    },
})


# ---- properties decided (in part) from the mutator / Display / matches contracts --------------------------------
LID_MUT = [V('langid', r'::LanguageIdentifier::(from_parts|set_variants|clear_variants|has_variant|variants|into_parts)$'),
           V('langid', r'::lemma_(sorted_dedup_variants|variants_\w+)$')]
LOC_MUT = [V('locale', r'::UnicodeExtensionList::(is_empty|keyword|keyword_keys|attributes|set_keyword|remove_keyword|clear_keywords|clear_attributes|has_attribute|set_attribute|remove_attribute)$'),
           V('locale', r'::TransformExtensionList::(is_empty|tlang|tfield|tfield_keys|set_tlang|clear_tlang|set_tfield|remove_tfield|clear_tfields)$'),
           V('locale', r'::PrivateExtensionList::(is_empty|tags|clear_tags|has_tag|add_tag|remove_tag)$'),
           V('locale', r'::ExtensionsMap::is_empty$'),
           V('locale', r'::(unicode::lemma_\w+|vspec::lemma_(kv_wf_\w+|fmc_utype|insert_multiset|map_values_multiset|texts_\w+|strict_sorted_\w+|weak_sorted_\w+|sorted_\w+|tiny_text\w*|lower_props))$')]
LID_DISPLAY = [V('langid', r'::(Language|Script|Region|Variant|LanguageIdentifier)::fmt$'), V('langid', r'::lemma_dash_join_push$'),
               V('langid', r'::vspec::lemma_(wsum_\w+|jl_wsum|split_len|dash_join_len|strict_sorted_no_dup|lid_ser_not_longer)$'),
               V('langid', r'::canonicalize$'), V('langid', r'::LanguageIdentifier::lemma_wf_view$')]
LOC_DISPLAY = [V('locale', r'::(PrivateExtensionList|UnicodeExtensionList|TransformExtensionList|ExtensionsMap|Locale)::fmt$'),
               V('locale', r'::canonicalize$'), V('locale', r'::vspec::(lemma_kv_ser_push|lemma_sorted_keys_unique|kv_ser)$')]
MATCH_K = [K('langid_match', 'match_language'), K('langid_match', 'match_fields_no_variants'), K('langid_match', 'match_variants_only',
             bounded='variant lists of length <= 2 per side (the code touches the lists only through is_empty and ==)'),
           K('langid_match', 'as_ref_is_identity'),
           K('langid_match', 'match_langid_formula', bounded='variant lists of length <= 2 per side', tier='thorough', timeout=1800, cost='86 s')]
ORD_K = [K('langid_leaf', h) for h in ['leaf_variant_ord_is_lex', 'leaf_language_ord_is_lex', 'leaf_script_ord_is_lex', 'leaf_region_ord_is_lex', 'leaf_subtag_eq_str']] + \
    [K('locale_leaf', h) for h in ['tinystr8_eq_ord_is_text', 'tinystr4_eq_ord_is_text']]

ORD_LID_K = [K('langid_ord', 'lid_ord_fields_no_variants'), K('langid_ord', 'subtag_eq_implies_same_hash'),
             K('langid_ord', 'lid_eq_implies_same_hash_no_variants'),
             K('langid_ord', 'lid_eq_hash_variants_le1', bounded='variant lists of length <= 1 per side, every representation (None, Some([]), Some([a]))', tier='thorough', timeout=1800, cost='4.5 min'),
             K('langid_ord', 'lid_ord_variants_only', bounded='variant lists of length <= 2 per side', tier='thorough', timeout=3600, cost='8 min'),
             K('langid_ord', 'lid_eq_implies_same_hash_variants', bounded='variant lists of length <= 2 per side', tier='thorough', timeout=3600, cost='8.5 min')]

PROPS.update({
    'C10': {
        'kani': [K('langid_leaf', h) for h in LEAF_LID] + LOCALE_LEAF + ORD_K,
        'verus': [V('bridge', BRIDGE_ALL)] + LID_MUT + LOC_MUT,
        'explanation': 'data-structure argument, unbounded in history length and container size: every public &mut method under contract is verified once '
                       'from an ARBITRARY state satisfying the representation invariant wf() and shown to re-establish wf() and to change the abstract view '
                       '(sorted set / sorted multiset / ordered map) exactly as the model operation does, over the WHOLE view (other keys/elements unchanged); '
                       'on Err the view is unchanged; getters return the projection of the view; arguments are normalised by the same leaf parsers as the parser '
                       '(leaf contracts proved by Kani on the real code)',
    },
    'C11': {
        'kani': MATCH_K,
        'verus': [V('locale', r'::Locale::matches$'), V('langid', r'::LanguageIdentifier::lemma_wf_view$'),
                  V('langid', r'::LanguageIdentifier::matches$'), V('langid', r'::(subtag_matches|is_option_empty|subtags_match|lemma_variants_eq)$'),
                  V('langid', r'::lemma_matches_\w+$')],
        'explanation': 'LanguageIdentifier::matches and its helpers subtag_matches / is_option_empty / subtags_match are verified in Verus on their real text '
                       '(variant lists of ANY length) against the missing-subtag-as-wildcard formula over the views; Language::matches is a leaf whose contract Kani proves for '
                       'all raw values; the stated consequences (== when both flags are false, symmetry under swapping operands with flags, reflexivity, monotonicity in the '
                       'flags) are Verus lemmas over the formula (lemma_matches_*) and are also asserted by Kani on the compiled code for ALL raw field values and all four flag '
                       'pairs (variant lists <= 2 there); Locale::matches is verified in Verus (verbatim body) against "false if either side has private tags, else the id result"',
    },
    'C04': {
        'kani': [K('langid_leaf', h) for h in LEAF_LID] + LOCALE_LEAF + ORD_K,
        'verus': [V('bridge', BRIDGE_ALL)] + LID_DISPLAY + LOC_DISPLAY + LID_PARSER + LOC_PARSER,
        'standin': ['lid', 'locale'],
        'explanation': 'every Display impl (verbatim body, loop invariants over &Vec / &BTreeMap) is verified to append exactly the serialisation spec of the value\'s '
                       'view: lang[-Script][-REGION](-variant)* then -t (tlang, tfields by key) -u (attributes, keywords by key) -x (tags), nothing for an empty '
                       'extension; the representation invariant wf() (established by the parser contracts and preserved by every mutator, C10) gives case, sortedness, '
                       'uniqueness and absence of `true`; canonicalize is verified to return exactly that string for the value parsed from its input',
    },
    'C17': {
        'kani': [K('langid_leaf', h) for h in LEAF_LID],
        'verus': [V('langid', r'::LanguageIdentifier::(from_parts|into_parts)$'), V('langid', r'::lemma_(sorted_dedup_variants|variants_\w+)$'),
                  V('locale', r'::Locale::(into_parts|from_parts)$')],
        'explanation': 'into_parts returns the fields of the view and from_parts builds the wf value whose variant set is the argument\'s (sorted, de-duplicated), '
                       'so from_parts(into_parts(x)) == x on wf values and any order / duplication of the variants gives the same value',
    },
    'C12': {
        'kani': ORD_K + ORD_LID_K,
        'verus': [V('langid', r'::LanguageIdentifier::eq$'), V('langid', r'::(Language|Script|Region|Variant)::lemma_view_injective$')],
        'explanation': 'derived ==/cmp of the four subtag types and of TinyAsciiStr equal equality / lexicographic order of the stored text (Kani, all raw values); '
                       'the derived Ord / PartialOrd / PartialEq of LanguageIdentifier on the compiled code equal the field-by-field comparison language, script, region, '
                       'variants with an absent subtag first, are antisymmetric, == iff Equal, and equal values feed any Hasher the same bytes (Kani langid_ord, all raw values; '
                       'variant lists bounded); LanguageIdentifier == &str is verified (verbatim body) to be true iff the string equals the canonical serialisation of the view',
    },
})


# ---- likely subtags (feature likelysubtags): tables, cascade, minimize ---------------------------------------------
TAB_NAMES = ['lang_only', 'lang_region', 'lang_script', 'script_region', 'script_only', 'region_only']
TAB_SMALL_EQ = [K('langid_tables', n + '_eq_cldr') for n in TAB_NAMES if n != 'lang_only'] + [K('langid_tables', 'lang_only_eq_cldr_ctfe')]
TAB_SORTED = [K('langid_tables', n + '_sorted') for n in TAB_NAMES]
TAB_WF = [K('langid_tables', n + '_wf') for n in TAB_NAMES]
TAB_BIG_EQ = [K('langid_tables', 'lang_only_eq_cldr_%02d' % k, tier='thorough', timeout=5400, cost='5-8 min and ~10 GB each', jobs=4) for k in range(14)]
TAB_MISC = [K('langid_tables', 'cldr_version_matches'), K('langid_tables', 'wf_predicates_not_vacuous')]
CASCADE_QUICK = [K('langid_likely', 'maximize_is_cascade_no_lang', timeout=900), K('langid_likely', 'maximize_is_cascade_lang_specific', timeout=1200),
                 K('langid_likely', 'maximize_full_is_unchanged', timeout=900)]
CASCADE_FULL = [K('langid_likely', 'maximize_is_cascade_lang', tier='thorough', timeout=5400, cost='19 min', jobs=2)]
LIKELY_TRUST = ['ASSUMED std contract: <[T]>::binary_search_by_key on a slice strictly sorted by the key returns Ok(i) with key(s[i]) == k, '
                'or Err(i) with key(s[i-1]) < k < key(s[i]) (contracts/kani/langid_likely.rs Bs::contract replaces it by kani::stub); strict sortedness of '
                'each table is the U-TAB obligation *_sorted',
                'raw inputs of the Kani harnesses range over all integers whose bytes are ASCII (the type invariant of TinyAsciiStr) and, for a '
                'non-empty language, differ from the text `und`']

PROPS.update({
    'C18': {
        'kani': TAB_SMALL_EQ + TAB_SORTED + TAB_WF + TAB_MISC + TAB_BIG_EQ + [K('langid_dir', 'layout_tables_eq_cldr')],
        'verus': [V('bridge', BRIDGE_LID)],
        'trusted': ['vf/gen.py (independent re-derivation of the expected tables from the CLDR JSON files: UTS #35 shape rules + little-endian ASCII integer form) is the oracle; '
                    'the repository\'s generator binaries are not re-run',
                    'LANG_ONLY (7143 rows) == CLDR: in the quick tier the closed boolean is evaluated by rustc\'s compile-time evaluator (const initialiser reading the real '
                    'static; obligation lang_only_eq_cldr_ctfe asserts the constant); the thorough tier re-proves it with CBMC alone in 14 chunk obligations (5-8 min each)'],
        'explanation': 'closed obligations over the compiled statics of the real crate, each decided for EVERY row through one symbolic index: table == the CLDR data '
                       'regenerated on every run, keys strictly increasing in the Ord of the key tuple that binary_search_by_key uses, every stored integer is the '
                       'integer form of a well-formed canonically-cased subtag (wf predicates = the leaf predicates Verus proves equal to the spec), every value has '
                       'language, script and region and keeps its key\'s subtags; the four direction constants equal the sets derived from the layout files; CLDR_VERSION matches',
    },
    'C06': {
        'kani': TAB_SMALL_EQ + TAB_SORTED + TAB_WF + CASCADE_QUICK + CASCADE_FULL + TAB_BIG_EQ,
        'trusted': LIKELY_TRUST,
        'explanation': 'likelysubtags::maximize (real code) equals the cascade written from the statement of C06 — most specific matching entry: (language, region), '
                       '(language, script), language; for an undetermined language (script, region), script; region — for ALL raw (language, script, region), with every '
                       'given subtag kept and `unchanged` exactly when all three are present or no entry matches; the per-entry clause (maximize(K) == V for every CLDR entry) '
                       'follows from the cascade, strict sortedness and table == CLDR (U-TAB)',
    },
    'C07': {
        'kani': TAB_SORTED + TAB_WF + CASCADE_QUICK + CASCADE_FULL,
        'verus': [V('langid', r'::LanguageIdentifier::(maximize|minimize)$', features=('likelysubtags',))],
        'trusted': LIKELY_TRUST,
        'explanation': 'every result of maximize has all three subtags and keeps every given one (asserted on the value in each cascade harness, for all raw inputs; the '
                       'table facts it needs are read from the real tables), at least one subtag was missing, and maximize reports unchanged on every identifier with all '
                       'three (idempotence); the LanguageIdentifier wrappers are verified in Verus (verbatim bodies): true => fields = the returned triple, false => unchanged, '
                       'variants untouched in both cases; a Locale\'s extensions are outside the frame of id.maximize()',
    },
    'C08': {
        'kani': [K('langid_likely', 'minimize_laws', timeout=1500), K('langid_likely', 'minimize_idempotent', timeout=900),
                 K('langid_likely', 'minimize_after_maximize', timeout=1200), K('langid_likely', 'finding_minimize_after_maximize_und_arab_id', timeout=900),
                 K('langid_likely', 'maximize_full_is_unchanged', timeout=900)],
        'verus': [V('langid', r'::LanguageIdentifier::(maximize|minimize)$', features=('likelysubtags',))],
        'trusted': ['minimize is verified against maximize\'s CONTRACT (kani::stub(maximize, M)): M is an arbitrary deterministic function with maximize\'s proved '
                    'postconditions (C06/C07 harnesses): None when all three present, None for bare und, otherwise None or all three present with every given subtag kept'],
        'explanation': 'for every function M with maximize\'s contract and ALL raw inputs: a changed result maximizes to the same triple, uses only its subtags, has no more '
                       'script/region subtags than the input, is the first of {language, language-region, language-script} that maximizes back; minimize is idempotent; '
                       'minimize(maximize(x)) == minimize(x) whenever one of the three forms maximizes back (the remaining inputs are known finding F1)',
    },
})


PROPS.update({
    'C14': {
        'kani': [K('langid_dir', h) for h in ['layout_tables_eq_cldr', 'dir_is_model', 'dir_cldr_rows']] +
                [K('langid_dir_likely', h) for h in ['layout_tables_eq_cldr', 'dir_is_model', 'dir_cldr_rows_direct', 'dir_cldr_rows_likely_model', 'dir_cldr_rows_split']] +
                [K('langid_dir_likely', 'dir_cldr_rows_likely_real', tier='thorough', timeout=3000, cost='200 s')] + CASCADE_QUICK,
        'trusted': LIKELY_TRUST + ['vf/gen.py derives the expected script / language sets, the 710 (locale, characterOrder) rows and, for the 72 script-less rows of '
                                   'right-to-left languages, the likely script from the CLDR JSON files',
                                   'with likely subtags enabled, character_direction is verified against maximize\'s CONTRACT (kani::stub(maximize, M)); that the real maximize '
                                   'returns the likely script gen.py computed for the 72 rows is the obligation dir_cldr_rows_likely_real (binary_search_by_key by its assumed contract)'],
        'explanation': 'for ALL raw (language, script, region) and variant lists, in both feature configurations, character_direction() (real code) equals the model of C14 over '
                       'the CLDR-derived sets: a listed script decides on its own, otherwise a right-to-left language is RTL (refined to LTR when its likely script is a listed '
                       'LTR script, likely subtags enabled), everything else LTR; variants never matter (the value is built with an arbitrary variant list); every one of the '
                       '710 CLDR layout locales gets CLDR\'s characterOrder with likely subtags, and without them differs only for script-less identifiers of multi-direction languages',
    },
})


PROPS.update({
    'C19': {
        'kani': [K('langid_serde', h) for h in ['serialize_is_to_string', 'deserialize_str_is_parse', 'deserialize_non_string_is_err', 'from_str_is_from_bytes']] +
                [K('langid_serde', 'deserialize_long_str_is_parse', timeout=1200, cost='105 s')] +
                [K('langid_leaf', h) for h in LEAF_LID],
        'verus': [V('bridge', BRIDGE_LID)] + LID_PARSER + LID_DISPLAY,
        'standin': ['lid'],
        'trusted': ['the serde glue is verified against its callees\' CONTRACTS: Display::fmt of LanguageIdentifier (kani::stub by an oracle writing an arbitrary fixed text <= 8 bytes; '
                    'its real contract is C04\'s) and parse_language_identifier_from_iter (kani::stub by an arbitrary deterministic function of (first subtag, allow_extension); '
                    'its real contract is C02\'s); mock Serializer / Deserializer / Error types stand for serde_json (JSON escaping is serde_json\'s)',
                    'input strings of the deserialisation harnesses: every ASCII string of length <= 4, and one string of every length <= 64 (the glue does not inspect the '
                    'bytes; the parser oracle does not either)'],
        'explanation': 'serialize calls serialize_str exactly once with exactly the text Display::fmt writes (= to_string(), the canonical string by C04) and no other Serializer '
                       'method; deserialize of a string returns Ok(v) iff the parser does on that very string with allow_extension = false, with the same v, else Err; every '
                       'non-string kind (bool, u64, i64, f64, unit, none, char, bytes) is an error and no panic is reachable; with the verified parser / Display contracts this '
                       'gives the canonical form and the round trip',
    },
})


# ---- C20: every obligation re-discharged under the other feature sets -----------------------------------------------
FEATS_L = 'likelysubtags,serde'
PROPS.update({
    'C20': {
        'scan': ['cfg_sites'],
        'kani': [K('langid_leaf', h) for h in LEAF_LID + ['leaf_language_default_is_und']] +
                [K('langid_leaf@' + FEATS_L, h, tier='thorough', cost='40 s each') for h in LEAF_LID + ['leaf_language_default_is_und']] +
                [K('langid_match', h) for h in ['match_language', 'match_fields_no_variants', 'as_ref_is_identity']] +
                [K('langid_match', 'match_variants_only', bounded='variant lists of length <= 2 per side')] +
                [K('langid_match@' + FEATS_L, h, tier='thorough', cost='30-90 s each') for h in ['match_language', 'match_fields_no_variants', 'as_ref_is_identity']] +
                [K('langid_match@' + FEATS_L, 'match_variants_only', bounded='variant lists of length <= 2 per side', tier='thorough', cost='90 s')] +
                LOCALE_LEAF + [K(k['unit'] + '@likelysubtags', k['harness'], tier='thorough', cost='10-60 s each') for k in LOCALE_LEAF] +
                [K('langid_dir', 'dir_is_model'), K('langid_dir_likely', 'dir_is_model'), K('langid_serde', 'from_str_is_from_bytes'),
                 K('langid_serde', 'deserialize_str_is_parse'), K('langid_wrap', 'wrappers_agree_with_parser'),
                 K('langid_wrap@' + FEATS_L, 'wrappers_agree_with_parser')],
        'verus': [V('bridge', BRIDGE_ALL),
                  V('langid', r'^unic_langid_impl::(?!likelysubtags)'), V('langid', r'^unic_langid_impl::(?!likelysubtags)', features=('likelysubtags',)),
                  V('locale', r'^unic_locale_impl::'), V('locale', r'^unic_locale_impl::', features=('likelysubtags',))],
        'trusted': ['Verus does not see the `serde` feature (it only adds the module serde.rs, which contains no code shared with the functions under contract: checked by the '
                    'cfg-site scan); Kani builds the real crate with --features likelysubtags,serde',
                    'the facade crates unic-langid / unic-locale contain only re-exports and macro_rules! behind their features (cfg-site scan): no function to put under contract; '
                    'a dependency changing behaviour under cargo feature unification is not covered'],
        'explanation': 'the contracts are functional (result = spec function of the input), so two feature configurations that both satisfy them agree on every input: every Verus '
                       'obligation of both implementation crates (parsers, mutators, Display, conversions, lemmas) is re-discharged with likelysubtags on and off (rustc evaluates any '
                       'cfg inside a function under contract), and the Kani leaf / matches / direction harnesses are re-run on the real crate built with every optional feature; the '
                       'one intended difference, the cfg block in character_direction, is exactly the two models of C14; a syntactic scan asserts that no other feature-gated code exists',
    },
})


# ---- bounded obligations / stand-ins on the real library (witness/src/bounded.rs) -------------------------------------
B_RT = B('rt', 'Locale / ExtensionsMap / LanguageIdentifier round trip and canonicalize idempotence for every input made of a head (en, und, EN_latn, Und-t-UND) '
               'followed by <= 4 subtags of a 36-token alphabet (1.7 million strings); the Verus proof covers LanguageIdentifier, this covers the extension part')
B_INV = B('inv', 'structured locales written two ways: 4 heads x variant subsets of {macos,1996,valencia} x attribute subsets of {foo,bar} x keyword subsets of '
                 '{ca-buddhist,nu,co-phonebk-trad} x tlang {none,es-ar} x tfield subsets {h0-hybrid,m0-names} x optional -x-a-b; all permutations, one duplicated element, '
                 'both -u-/-t- orders, 4 case/separator masks')
B_MUT = B('mut', 'every sequence of <= 3 of 53 mutator calls (valid, boundary and invalid arguments) on 3 start values, every getter / is_empty / has_* / to_string / re-parse '
                 'compared with a set / multiset / map model after every step')
B_FP = B('fromparts', 'from_parts / into_parts of LanguageIdentifier and Locale for every variant list of length <= 3 over {macos,valencia,1996} (any order, duplicates), 2 heads, '
                      'with and without extensions (the Locale extension string is re-parsed as an ExtensionsMap)')
LID_RT = [V('langid', r'::vspec::lemma_(first_sep_prefix|dash_join_front|split_head_join|dash_join_concat|opt_dash_join|lid_ser_is_join|alnum_no_sep|alpha_is_alnum|und_props|'
                      r'lid_roundtrip|strict_sorted_same_set|lid_expected_unique|lid_parse_ser|lid_ser_injective)$')]
LID_INV = [V('langid', r'::vspec::lemma_(fold_bytes|fold_classes|var_run_fold|lid_case_invariant|first_sep_fold|subtags_fold|first_sep_none_before|lid_variant_order_invariant)$')]
LOC_RT = [V('locale', r'::vspec::lemma_(dash_join_one|kv_ser_join|kv_toks_\w+|last_key_at|kv_fold_\w+|keys_ok_from_wf|ext_\w+|u_first_key\w*|tkey_is_stopper|weak_sorted_unique|'
                       r'x_expected_unique|u_expected_unique|t_expected_unique|dash_lid_ser|e_ser_join|lid_toks_alnum|e_toks_alnum|locale_roundtrip_views|insert_sorted|keys_listable)$'),
          V('locale', r'::(lemma_locale_roundtrip|lemma_extmap_roundtrip)$'), V('locale', r'::TransformExtensionList::lemma_view_ok$'),
          V('langid', r'::vspec::lemma_lid_roundtrip_suffix$')]
LOC_INV = [V('locale', r'::vspec::lemma_(fold_shapes|fold_skip|u_end_fold|tf_end_fold|last_key_fold|kv_fold_fold|last_key_bounds|u_first_key_fold|u_first_key_bounds|'
                        r'u_body_fold|t_body_fold|x_fold|ext_parse_fold|ext_u_gen|ext_t_gen|ext_order_invariant)$'), V('locale', r'::lemma_locale_case_sep_invariant$')]
RT_K = [K('langid_leaf', h) for h in LEAF_LID + ['leaf_language_default_is_und', 'leaf_subtag_eq_str']]

PROPS.update({
    'C05': {
        'kani': RT_K + LOCALE_LEAF,
        'verus': [V('bridge', BRIDGE_ALL)] + LID_PARSER + LID_DISPLAY + LID_RT + LOC_PARSER + LOC_DISPLAY + LOC_RT,
        'bounded': [B_RT],
        'standin': ['lid', 'locale'],
        'trusted': ['the link from views to values (equal views of wf values are == values) is rustc derive semantics + axiom_text_injective',
                    'Locale / ExtensionsMap: lemma_locale_roundtrip / lemma_extmap_roundtrip are stated over the views (identifier, -u-, -t-, -x-); bounded:rt additionally '
                    're-checks the composition on the real library'],
        'explanation': 'Locale level: lemma_locale_roundtrip (for every well-formed Locale l, the grammar of C03 accepts subtags_of(locale_ser(l)) and ANY value it prescribes - '
                       'in particular the result of Locale::from_bytes, by its verified contract - has l\'s identifier, -u-, -t- and -x- views), lemma_extmap_roundtrip likewise for '
                       'ExtensionsMap::from_bytes on the extension string; '
                       'parser contract (from_bytes(b) = Ok(y) with lid_expected(subtags_of(b), y.view()) iff the grammar accepts) + Display contract (to_string(x) = lid_ser(x.view())) + '
                       'lemma_lid_roundtrip / lemma_lid_parse_ser (for every well-formed view v: subtags_of(lid_ser(v)) are v\'s own subtags, the grammar accepts them and prescribes v again) '
                       'give parse(to_string(x)) == x for every LanguageIdentifier of the safe API, hence canonicalize idempotence; subtags: Kani leaf contracts (stored text re-parses to itself)',
    },
    'C09': {
        'kani': [K('langid_leaf', h) for h in LEAF_LID] + LOCALE_LEAF,
        'verus': [V('bridge', BRIDGE_ALL)] + LID_PARSER + LID_INV + LID_RT + LOC_PARSER + LOC_INV,
        'bounded': [B_INV],
        'standin': ['lid', 'locale'],
        'trusted': ['proved: letter case and separator choice for LanguageIdentifier AND Locale (lemma_locale_case_sep_invariant over the verified parser contract); order / repetition '
                    'of variants; the locale-level order clauses (lemma_ext_order_invariant: either order of -u- / -t-, any listing of the attributes, any order of keywords / tfields with '
                    'distinct keys prescribe the same views) - the order lemma is stated on lower-case subtags without `true` values and composes with the case lemma; inputs that '
                    'combine `true` values with reordering are covered by the bounded obligation bounded:inv only'],
        'explanation': 'the parser contracts are functional in the subtag sequence; lemma_subtags_fold (byte strings that differ in case and -/_ split into subtag sequences that differ '
                       'only in case), lemma_lid_case_invariant (such sequences are accepted alike and prescribed the same value) and lemma_lid_variant_order_invariant (the value depends on '
                       'the variants only through the set of their lower-cased forms) give both-fail-or-equal for LanguageIdentifier; leaf parsers are case-insensitive by their Kani contracts',
    },
})
B_MATCH = B('matches', 'LanguageIdentifier::matches and Locale::matches on the product domain of the statement: (3 languages x 3 scripts x 3 regions x 4 variant lists) squared x 4 flag '
                     'pairs x extension shapes (none, -u-ca-buddhist, -x-priv) per side, against the wildcard formula')
PROPS['C11']['bounded'] = [B_MATCH]
B_SERDE = B('serde', 'through serde_json (text with escapes and serde_json::Value): every string of the language-identifier token space (7 heads x <= 2 subtags of the '
                     'boundary-class alphabet) and 144 long identifiers (up to 12 variants / 120 bytes) deserialises iff it parses, with an equal value; every parsed value serialises to its canonical string and back; 8 non-string JSON values are errors')
PROPS['C19']['bounded'] = [B_SERDE]
B_LIKELY = B('likely', 'LanguageIdentifier::maximize / minimize (the wrappers, real tables) on 16 languages x 10 scripts x 11 regions x {no variant, one variant}: returned '
                      'flag == value changed, variants untouched, given subtags kept, all three filled, idempotence, minimize maximizes back (laws that need no reference data)')
PROPS['C07']['bounded'] = [B_LIKELY]
PROPS['C08']['bounded'] = [B_LIKELY]
B_ORD = B('ord', 'Eq / Ord / Hash of Locale (and of its id) on pairs from a pool of ~3800 locales (10 identifiers x 8 -t- x 12 -u- x 4 -x- shapes): == iff canonical strings equal, '
                  'cmp Equal iff ==, antisymmetry, partial_cmp, equal => equal hash, identifier decides first; transitivity on a sample of triples')
PROPS['C12']['bounded'] = [B_MUT, B_RT, B_ORD]
PROPS['C10']['bounded'] = [B_MUT]
PROPS['C04']['bounded'] = [B_RT, B_MUT]
PROPS['C10']['standin'] = ['locale']
PROPS['C17']['bounded'] = [B_FP]
PROPS['C17']['verus'] = PROPS['C17']['verus'] + LOC_RT + LID_RT
PROPS['C17']['kani'] = PROPS['C17']['kani'] + [K('langid_leaf', h) for h in ['leaf_variant_ord_is_lex', 'leaf_language_ord_is_lex', 'leaf_script_ord_is_lex', 'leaf_region_ord_is_lex']]
B_SUPER = B('super', 'both parsers on the same input: 12 heads (incl. 5-8 letter languages) x <= 3 subtags of the boundary-class alphabet; id / extensions / to_string agreement, the '
                    'id-before-the-first-singleton clause and the From conversions')
PROPS['C13']['standin'] = ['lid', 'locale']
PROPS['C13']['bounded'] = [B_SUPER]
PROPS['C12']['verus'] = PROPS['C12']['verus'] + LOC_RT
PROPS['C12']['verus'] = PROPS['C12']['verus'] + [V('langid', r'::vspec::lemma_(lid_ser_injective|lid_parse_ser|lid_roundtrip|strict_sorted_same_set|lid_expected_unique)$')]

B_FEAT = B('features', 'differential run of one observation program (featdiff/: no feature-only API) built against the real crates with no optional feature, likelysubtags, '
                       'serde and both: ~76 000 observations must be identical - parse / from_str / canonicalize of both crates on 12 languages x 5 scripts x 7 regions x 3 variant '
                       'lists x 5 extension shapes (+ upper-case / underscore spellings) and on 3 700 raw strings of a boundary-class alphabet; matches (4 flag pairs), cmp, ==, hash '
                       'equality and == &str on all pairs of a 360-identifier pool (a thinned 250 + the full product of 4 languages x 3 scripts x 3 regions x 3 variant lists) and a 230-locale pool; a 40-step mutator / getter / conversion script on 900 start values; '
                       'character_direction only for identifiers that carry a script')
PROPS['C20']['bounded'] = [B_FEAT]
B_DIRROWS = B('dirrows', 'closed obligation decided by EXECUTION of the real library (likely subtags on) on its whole finite domain: all 710 CLDR layout locales (rows re-derived from the '
                         'JSON files on every run): character_direction == characterOrder, and for the 72 script-less rows of right-to-left languages the real maximize yields '
                         'CLDR\'s likely script; the same statement is proved by CBMC in the thorough tier (dir_cldr_rows_likely_real)')
PROPS['C14']['bounded'] = [B_DIRROWS]

NOT_APPLICABLE = {
    'C16': 'compile-time macro expansion (proc_macro::TokenStream, compile success/failure) is outside any function contract; see DESIGN.md',
}
