"""Property -> obligations.  V(...) = Verus functions (regex over verified function names),
K(...) = Kani harness.  `bounded` marks an obligation that is only a bounded stand-in."""


def V(crate, pattern, features=(), tier=None):
    d = {'crate': crate, 'pattern': pattern, 'features': tuple(features)}
    if tier:
        d['tier'] = tier
    return d


def K(unit, harness, bounded=None, tier=None, timeout=600, cost=None):
    d = {'unit': unit, 'harness': harness, 'timeout': timeout}
    if bounded:
        d['bounded'] = bounded
    if tier:
        d['tier'] = tier
    if cost:
        d['cost'] = cost
    return d


TRUSTED_BASE = [
    'soundness of Verus 0.2026.09.13 + Z3 and of Kani 0.68 + CBMC 6.11 (+ the SAT back end)',
    'rustc: the code Kani verifies (MIR of the scratch copy of /repo, add-only harness module) is the code that runs',
    'Verus side: std/alloc contracts in contracts/verus/prelude.rs (Peekable::peek/next as a ghost sequence, sort_unstable, dedup, into_boxed_slice, ...) are ASSUMED',
    'Verus side: bodies of tinystr are not seen; every fact about TinyAsciiStr is a leaf contract that Kani proves on the real tinystr (assumed on the Verus side)',
    "rustc #[derive] semantics for PartialEq/Eq/Ord/Hash/Default/Clone on the library's structs",
    'heap allocation never fails; machine integers are machine integers in both tools (overflow checked)',
    'Kani leaf harnesses quantify over every byte string of length <= 16 (N=16 symbolic buffer + symbolic length) and over-long inputs up to 64 bytes; longer inputs are assumed to behave like those (every leaf function checks the length before reading any byte)',
]

LEAF_LID = ['leaf_language_from_bytes', 'leaf_script_from_bytes', 'leaf_region_from_bytes', 'leaf_variant_from_bytes',
            'leaf_from_bytes_overlong']
BRIDGE_LID = r'::x_(is_language|is_script|is_region|is_variant|eq_lower|eq_upper|eq_title|all_alpha|all_digit|all_alnum|alpha|digit|alnum|lower_b|upper_b)$'

LOCALE_LEAF = [K('locale_unicode_leaf', h) for h in ['leaf_parse_key', 'leaf_parse_type', 'leaf_parse_attribute', 'leaf_is_type_is_attribute', 'leaf_unicode_overlong']] + \
    [K('locale_transform_leaf', h) for h in ['leaf_parse_tkey', 'leaf_parse_tvalue', 'leaf_is_language_subtag', 'leaf_transform_overlong']] + \
    [K('locale_private_leaf', h) for h in ['leaf_parse_value', 'leaf_private_overlong']] + \
    [K('locale_leaf', h) for h in ['leaf_extension_type_from_byte', 'default_is_empty', 'tinystr8_eq_ord_is_text', 'tinystr4_eq_ord_is_text']]
PRIVATE_BOUNDED = K('locale_private_leaf', 'private_try_from_iter_bounded',
                    bounded='PrivateExtensionList::try_from_iter (assumed contract on the Verus side): <= 2 subtags of <= 3 symbolic bytes, sort_unstable stubbed by a 2-element sort',
                    timeout=900, cost='65 s')
BRIDGE_ALL = r'::x_\w+$'
LID_LEMMAS = r'::(lemma_(sorted_dedup_variants|var_run\w*|classes_disjoint|lex_\w+|adjacent_\w+|toks_skip|split_nonempty|first_sep_bounds)|first_sep_by|split_by|var_run|lex_le)$'
LID_PARSER = [V('langid', r'::parser::parse_language_identifier_from_iter$'), V('langid', r'::parser::parse_language_identifier$'),
              V('langid', r'::LanguageIdentifier::(from_bytes|try_from_iter)$'), V('langid', r'::LanguageIdentifierError::from$'),
              V('langid', LID_LEMMAS)]
LOC_LEMMAS = r'::vspec::(lemma_\w+|ext_parse|kv_fold|last_key|tf_end|u_end|u_first_key)$'
LOC_PARSER = [V('locale', r'::(UnicodeExtensionList|TransformExtensionList)::try_from_iter$'),
              V('locale', r'::ExtensionsMap::(try_from_iter|from_bytes)$'),
              V('locale', r'::parser::parse_locale$'), V('locale', r'::Locale::from_bytes$'),
              V('locale', r'::(LocaleError|ParserError)::from$'), V('locale', LOC_LEMMAS)]

PROPS = {
    'C15': {
        'kani': [K('langid_leaf', h) for h in LEAF_LID + ['leaf_language_default_is_und']],
        'verus': [V('bridge', BRIDGE_LID)],
        'explanation': 'each subtag from_bytes is checked by Kani on the real code (real tinystr) against the UTS #35 production '
                       'for every byte string; the production predicates are the exec functions of contracts/leaf_preds.rs, which '
                       'Verus proves equal to the spec functions the property is stated with',
    },
    'C02': {
        'kani': [K('langid_leaf', h) for h in LEAF_LID],
        'verus': [V('bridge', BRIDGE_LID)] + LID_PARSER,
        'standin': ['lid'],
        'explanation': 'parse_language_identifier_from_iter (verbatim text, loop invariant + decreases) returns exactly the value / error '
                       'the grammar of C02 prescribes for every subtag sequence; leaf contracts are discharged by Kani',
    },
}

PROPS.update({
    'C01': {
        'kani': [K('langid_leaf', h) for h in LEAF_LID + ['leaf_language_default_is_und']] + LOCALE_LEAF + [PRIVATE_BOUNDED],
        'verus': [V('bridge', BRIDGE_ALL)] + LID_PARSER + LOC_PARSER,
        'standin': ['lid', 'locale'],
        'explanation': 'every parser function verifies in Verus, which includes for all inputs: no reachable panic!/unimplemented!/unwrap-on-None, '
                       'indices in bounds, no overflow, and a decreases measure on every loop (termination, unbounded input length); the byte-level '
                       'leaf functions are panic-/overflow-/bounds-free for all byte strings by Kani on the real tinystr code',
    },
    'C03': {
        'kani': [K('langid_leaf', h) for h in LEAF_LID] + LOCALE_LEAF + [PRIVATE_BOUNDED],
        'verus': [V('bridge', BRIDGE_ALL)] + LID_PARSER + LOC_PARSER,
        'standin': ['lid', 'locale'],
        'explanation': 'Locale::from_bytes == the recogniser ext_parse/lid grammar written from the UTS #35 productions of the statement: Ok exactly '
                       'when the recogniser accepts, and the value holds exactly the recognised subtags in normalised form (nothing dropped or '
                       'reinterpreted); multi-character / repeated / unknown singletons, second tlang, malformed or misplaced subtags => Err',
    },
    'C13': {
        'kani': [K('langid_leaf', h) for h in LEAF_LID] + [K('locale_leaf', 'default_is_empty')],
        'verus': LID_PARSER + [V('locale', r'::parser::parse_locale$'), V('locale', r'::Locale::from_bytes$'),
                               V('locale', r'::ExtensionsMap::try_from_iter$'),
                               V('locale', r'::lemma_c13_\w+$'), V('locale', r'::lemma_var_run_take$'),
                               V('locale', r'::(Locale|LanguageIdentifier)::from$')],
        'explanation': 'both parsers share the verified parse_language_identifier_from_iter; lemma_c13_superset/_reject/_prefix derive the three clauses '
                       'from the two contracts; the From conversions are verified verbatim',
    },
})


# ---- properties decided (in part) from the mutator / Display / matches contracts --------------------------------
LID_MUT = [V('langid', r'::LanguageIdentifier::(from_parts|set_variants|clear_variants|has_variant|into_parts)$'),
           V('langid', r'::lemma_(sorted_dedup_variants|variants_\w+)$')]
LOC_MUT = [V('locale', r'::UnicodeExtensionList::(is_empty|set_keyword|remove_keyword|clear_keywords|clear_attributes|has_attribute|set_attribute|remove_attribute)$'),
           V('locale', r'::TransformExtensionList::(is_empty|tlang|set_tlang|clear_tlang|set_tfield|remove_tfield|clear_tfields)$'),
           V('locale', r'::PrivateExtensionList::(is_empty|clear_tags|has_tag|add_tag|remove_tag)$'),
           V('locale', r'::ExtensionsMap::is_empty$'),
           V('locale', r'::(unicode::lemma_\w+|vspec::lemma_(kv_wf_\w+|fmc_utype|insert_multiset|map_values_multiset|texts_\w+|strict_sorted_\w+|weak_sorted_\w+|sorted_\w+|tiny_text\w*|lower_props))$')]
LID_DISPLAY = [V('langid', r'::(Language|Script|Region|Variant|LanguageIdentifier)::fmt$'), V('langid', r'::lemma_dash_join_push$'),
               V('langid', r'::canonicalize$'), V('langid', r'::LanguageIdentifier::lemma_wf_view$')]
LOC_DISPLAY = [V('locale', r'::(PrivateExtensionList|UnicodeExtensionList|TransformExtensionList|ExtensionsMap|Locale)::fmt$'),
               V('locale', r'::canonicalize$'), V('locale', r'::vspec::(lemma_kv_ser_push|lemma_sorted_keys_unique|kv_ser)$')]
MATCH_K = [K('langid_match', 'match_language'), K('langid_match', 'match_fields_no_variants'), K('langid_match', 'match_variants_only',
             bounded='variant lists of length <= 2 per side (the code touches the lists only through is_empty and ==)'),
           K('langid_match', 'as_ref_is_identity'),
           K('langid_match', 'match_langid_formula', bounded='variant lists of length <= 2 per side', tier='thorough', timeout=1800, cost='86 s')]
ORD_K = [K('langid_leaf', h) for h in ['leaf_variant_ord_is_lex', 'leaf_language_ord_is_lex', 'leaf_script_ord_is_lex', 'leaf_region_ord_is_lex', 'leaf_subtag_eq_str']] + \
    [K('locale_leaf', h) for h in ['tinystr8_eq_ord_is_text', 'tinystr4_eq_ord_is_text']]

PROPS.update({
    'C10': {
        'kani': [K('langid_leaf', h) for h in LEAF_LID] + LOCALE_LEAF + ORD_K,
        'verus': [V('bridge', BRIDGE_ALL)] + LID_MUT + LOC_MUT,
        'explanation': 'data-structure argument, unbounded in history length and container size: every public &mut method under contract is verified once '
                       'from an ARBITRARY state satisfying the representation invariant wf() and shown to re-establish wf() and to change the abstract view '
                       '(sorted set / sorted multiset / ordered map) exactly as the model operation does, over the WHOLE view (other keys/elements unchanged); '
                       'on Err the view is unchanged; getters return the projection of the view; arguments are normalised by the same leaf parsers as the parser '
                       '(leaf contracts proved by Kani on the real code)',
    },
    'C11': {
        'kani': MATCH_K,
        'verus': [V('locale', r'::Locale::matches$'), V('langid', r'::LanguageIdentifier::lemma_wf_view$')],
        'explanation': 'Kani proves on the real code, for ALL raw field values and all four flag pairs, that LanguageIdentifier::matches equals the '
                       'missing-subtag-as-wildcard formula field by field, plus the stated consequences (== when both flags are false, symmetry under swapping '
                       'operands with flags, reflexivity, monotonicity in the flags); Locale::matches is verified in Verus (verbatim body) against '
                       '"false if either side has private tags, else the id result"',
    },
    'C04': {
        'kani': [K('langid_leaf', h) for h in LEAF_LID] + LOCALE_LEAF + ORD_K,
        'verus': [V('bridge', BRIDGE_ALL)] + LID_DISPLAY + LOC_DISPLAY + LID_PARSER + LOC_PARSER,
        'standin': ['lid', 'locale'],
        'explanation': 'every Display impl (verbatim body, loop invariants over &Vec / &BTreeMap) is verified to append exactly the serialisation spec of the value\'s '
                       'view: lang[-Script][-REGION](-variant)* then -t (tlang, tfields by key) -u (attributes, keywords by key) -x (tags), nothing for an empty '
                       'extension; the representation invariant wf() (established by the parser contracts and preserved by every mutator, C10) gives case, sortedness, '
                       'uniqueness and absence of `true`; canonicalize is verified to return exactly that string for the value parsed from its input',
    },
    'C17': {
        'kani': [K('langid_leaf', h) for h in LEAF_LID],
        'verus': [V('langid', r'::LanguageIdentifier::(from_parts|into_parts)$'), V('langid', r'::lemma_(sorted_dedup_variants|variants_\w+)$'),
                  V('locale', r'::Locale::into_parts$')],
        'explanation': 'into_parts returns the fields of the view and from_parts builds the wf value whose variant set is the argument\'s (sorted, de-duplicated), '
                       'so from_parts(into_parts(x)) == x on wf values and any order / duplication of the variants gives the same value',
    },
    'C12': {
        'kani': ORD_K,
        'verus': [V('langid', r'::LanguageIdentifier::eq$'), V('langid', r'::(Language|Script|Region|Variant)::lemma_view_injective$')],
        'explanation': 'derived ==/cmp of the four subtag types and of TinyAsciiStr equal equality / lexicographic order of the stored text (Kani, all raw values); '
                       'LanguageIdentifier == &str is verified (verbatim body) to be true iff the string equals the canonical serialisation of the view',
    },
})

NOT_APPLICABLE = {
    'C16': 'compile-time macro expansion (proc_macro::TokenStream, compile success/failure) is outside any function contract; see DESIGN.md',
}
