"""Inject harness modules into a scratch copy of /repo and run Kani on the real crates."""
import glob
import json
import os
import re

from . import common

UNITS = {
    'langid_leaf': {'crate': 'unic-langid-impl', 'file': 'contracts/kani/langid_leaf.rs', 'mod': 'verif_langid_leaf',
                    'features': [], 'preds': True},
    'langid_match': {'crate': 'unic-langid-impl', 'file': 'contracts/kani/langid_match.rs', 'mod': 'verif_langid_match',
                     'features': [], 'preds': True},
    'langid_ord': {'crate': 'unic-langid-impl', 'file': 'contracts/kani/langid_ord.rs', 'mod': 'verif_langid_ord', 'features': [], 'preds': False},
    'langid_wrap': {'crate': 'unic-langid-impl', 'file': 'contracts/kani/langid_wrap.rs', 'mod': 'verif_langid_wrap', 'features': [], 'preds': False},
    'langid_tables': {'crate': 'unic-langid-impl', 'file': 'contracts/kani/langid_tables.rs', 'mod': 'verif_langid_tables',
                      'features': ['likelysubtags'], 'preds': True, 'gen': 'likely', 'host': 'src/likelysubtags/mod.rs',
                      'modfile': 'src/likelysubtags/verif_langid_tables.rs'},
    'langid_likely': {'crate': 'unic-langid-impl', 'file': 'contracts/kani/langid_likely.rs', 'mod': 'verif_langid_likely',
                      'features': ['likelysubtags'], 'preds': True, 'host': 'src/likelysubtags/mod.rs',
                      'modfile': 'src/likelysubtags/verif_langid_likely.rs'},
    'langid_dir': {'crate': 'unic-langid-impl', 'file': 'contracts/kani/langid_dir.rs', 'mod': 'verif_langid_dir',
                   'features': [], 'preds': True, 'gen': 'layout'},
    'langid_dir_likely': {'crate': 'unic-langid-impl', 'file': 'contracts/kani/langid_dir.rs', 'mod': 'verif_langid_dir',
                          'features': ['likelysubtags'], 'preds': True, 'gen': 'layout'},
    'langid_serde': {'crate': 'unic-langid-impl', 'file': 'contracts/kani/langid_serde.rs', 'mod': 'verif_langid_serde',
                     'features': ['serde'], 'preds': False, 'needs': ['serde']},
    'locale_leaf': {'crate': 'unic-locale-impl', 'file': 'contracts/kani/locale_leaf.rs', 'mod': 'verif_locale_leaf',
                    'features': [], 'preds': True},
    'locale_unicode_leaf': {'crate': 'unic-locale-impl', 'file': 'contracts/kani/locale_unicode_leaf.rs', 'mod': 'verif_unicode_leaf',
                            'features': [], 'preds': True, 'host': 'src/extensions/unicode.rs',
                            'modfile': 'src/extensions/unicode/verif_unicode_leaf.rs'},
    'locale_transform_leaf': {'crate': 'unic-locale-impl', 'file': 'contracts/kani/locale_transform_leaf.rs', 'mod': 'verif_transform_leaf',
                              'features': [], 'preds': True, 'host': 'src/extensions/transform.rs',
                              'modfile': 'src/extensions/transform/verif_transform_leaf.rs'},
    'locale_private_leaf': {'crate': 'unic-locale-impl', 'file': 'contracts/kani/locale_private_leaf.rs', 'mod': 'verif_private_leaf',
                            'features': [], 'preds': True, 'host': 'src/extensions/private.rs',
                            'modfile': 'src/extensions/private/verif_private_leaf.rs'},
}


def unit_def(name):
    """`unit` or `unit@feat1,feat2`: the same harness file built with another cargo feature set (C20)."""
    if '@' in name:
        base, feats = name.split('@', 1)
        u = dict(UNITS[base])
        u['features'] = [f for f in feats.split(',') if f]
        return u
    return UNITS[name]


def harness_text(unit, gen_text=''):
    u = unit_def(unit)
    t = open(os.path.join(common.VERIF, u['file'])).read()
    if u.get('preds'):
        t = t.replace('//@PREDS@', open(os.path.join(common.VERIF, 'contracts/leaf_preds.rs')).read())
    if '//@GEN@' in t:
        t = t.replace('//@GEN@', gen_text)
    return t


def list_harnesses(text):
    """[(name, attrs)] for every #[kani::proof] / proof_for_contract fn in text."""
    out = []
    for m in re.finditer(r'((?:#\[(?:[^\[\]]|\[[^\]]*\])*\]\s*)+)fn\s+(\w+)\s*\(', text):
        attrs = m.group(1)
        if 'kani::proof' in attrs and m.group(2) != '$name':
            out.append((m.group(2), attrs))
    # harnesses stamped out by the `per_shape!(body: name = shape, ...)` macro of a harness file
    for m in re.finditer(r'per_shape!\(\s*\w+\s*:([^;]*?)\);', text):
        for n in re.findall(r'(\w+)\s*=\s*\d+', m.group(1)):
            out.append((n, '#[kani::proof] (per_shape!)'))
    return out


INJECTED_RE = re.compile(rb'\n#\[cfg\((?:kani|all\(kani[^\n]*)\)\]\nmod verif_\w+;\n')


def crate_fingerprint(repo_dir, crate):
    h = []
    roots = [os.path.join(repo_dir, crate)]
    if crate == 'unic-locale-impl':
        roots.append(os.path.join(repo_dir, 'unic-langid-impl'))
    for root in roots:
        for p in sorted(glob.glob(os.path.join(root, 'src', '**', '*.rs'), recursive=True)) + [os.path.join(root, 'Cargo.toml')]:
            if '/bin/' in p or os.path.basename(p).startswith('verif_'):
                continue
            h.append(os.path.relpath(p, repo_dir))
            # (without the `mod verif_*;` lines earlier units of this run injected into the scratch copy)
            h.append(INJECTED_RE.sub(b'', open(p, 'rb').read()))
    for p in ('Cargo.toml', 'Cargo.lock'):
        fp = os.path.join(repo_dir, p)
        if os.path.exists(fp):
            h.append(open(fp, 'rb').read())
    return common.sha(*h)


def inject(unit, repo_copy, text):
    """Add-only injection: the harness file as a child module + one `#[cfg(kani)] mod` line in its host file."""
    u = unit_def(unit)
    croot = os.path.join(repo_copy, u['crate'])
    dst = os.path.join(croot, u.get('modfile', 'src/%s.rs' % u['mod']))
    os.makedirs(os.path.dirname(dst), exist_ok=True)
    if not (os.path.exists(dst) and open(dst).read() == text):
        open(dst, 'w').write(text)
    host = os.path.join(croot, u.get('host', 'src/lib.rs'))
    # a harness module that needs a cargo feature is only compiled when that feature is on (several units share one scratch copy)
    cond = 'kani' if not u.get('needs') else 'all(kani, %s)' % ', '.join('feature = "%s"' % f for f in u['needs'])
    line = '\n#[cfg(%s)]\nmod %s;\n' % (cond, u['mod'])
    cur = open(host).read()
    if line not in cur:
        open(host, 'a').write(line)


RESULT_RE = re.compile(r'\*\* (\d+) of (\d+) failed(?: \((\d+) (?:unreachable|undetermined)[^)]*\))?')


def parse_output(out, harnesses, modname):
    """Per-harness results from (possibly thread-interleaved) terse output."""
    res = {h: {'status': 'missing', 'checks': 0, 'failed_checks': [], 'time_s': None, 'covers': None} for h in harnesses}
    cur_by_thread = {}
    cur = None
    lines = out.split('\n')
    i = 0
    while i < len(lines):
        ln = lines[i]
        m = re.match(r'^(?:Thread (\d+): )?Checking harness (\S+?)\.\.\.', ln)
        if m:
            name = m.group(2).split('::')[-1]
            cur_by_thread[m.group(1)] = name
            cur = name
            i += 1
            continue
        m = re.match(r'^Thread (\d+):\s*$', ln)
        if m:
            cur = cur_by_thread.get(m.group(1))
            i += 1
            continue
        if cur in res:
            r = res[cur]
            m = RESULT_RE.search(ln)
            if m and 'cover' not in ln:
                r['checks'] = int(m.group(2))
                r['n_failed'] = int(m.group(1))
            m2 = re.search(r'\*\* (\d+) of (\d+) cover properties satisfied', ln)
            if m2:
                r['covers'] = [int(m2.group(1)), int(m2.group(2))]
            if ln.startswith('Failed Checks:'):
                desc = ln[len('Failed Checks:'):].strip()
                loc = lines[i + 1].strip() if i + 1 < len(lines) and lines[i + 1].strip().startswith('File:') else ''
                r['failed_checks'].append((desc + ' ' + loc).strip())
            if ln.startswith('VERIFICATION:-') and r['status'] != 'resource':
                r['status'] = 'success' if 'SUCCESSFUL' in ln else 'failed'
            m3 = re.match(r'^Verification Time: ([0-9.]+)s', ln)
            if m3:
                r['time_s'] = float(m3.group(1))
            if 'CBMC failed' in ln or 'out of memory' in ln.lower() or 'timed out' in ln.lower():
                r['status'] = 'resource'
        i += 1
    # a FAILED verdict without a single failed check is a tool failure (CBMC killed / crashed under memory pressure), not a refutation
    for r in res.values():
        if r['status'] == 'failed' and not r['failed_checks'] and not r.get('n_failed'):
            r['status'] = 'resource'
    return res


def run_unit(unit, harnesses, repo_copy, gen_text='', timeout=900, jobs=12, playback=False, mem_gb=None):
    """Run the given harness names of one unit. Returns {harness: result}.  Harnesses that ended in a tool failure
    (CBMC killed / out of memory while many ran in parallel) are re-run once, one at a time."""
    res = _run_unit(unit, harnesses, repo_copy, gen_text, timeout, jobs, playback)
    again = [h for h, r in res.items() if r.get('status') == 'resource']
    if again and not playback and len(harnesses) > 1:
        res.update(_run_unit(unit, again, repo_copy, gen_text, timeout, 1, playback))
    return res


def _run_unit(unit, harnesses, repo_copy, gen_text='', timeout=900, jobs=12, playback=False):
    u = unit_def(unit)
    text = harness_text(unit, gen_text)
    declared = dict(list_harnesses(text))
    results = {}
    fp = crate_fingerprint(repo_copy, u['crate'])
    flags = ['-Z', 'function-contracts', '-Z', 'stubbing', '--output-format=terse']
    base_key = common.sha(fp, text, ' '.join(flags), ','.join(u['features']), json.dumps(common.tool_versions(), sort_keys=True))
    todo = []
    for h in harnesses:
        if h not in declared:
            results[h] = {'status': 'lost', 'checks': 0, 'failed_checks': ['harness not found in ' + u['file']], 'time_s': None}
            continue
        c = None if playback else common.cache_get('kani-' + common.sha(base_key, h))
        if c is not None:
            c = dict(c)
            c['cached'] = True
            results[h] = c
        else:
            todo.append(h)
    if not todo:
        return results
    inject(unit, repo_copy, text)
    cmd = ['cargo', 'kani', '-p', u['crate'], '--lib'] + flags
    if u['features']:
        cmd += ['--features', ','.join(u['features'])]
    if playback:
        cmd += ['-Z', 'concrete-playback', '--concrete-playback=print']
    for h in todo:
        cmd += ['--harness', h]
    if len(todo) > 1:
        cmd += ['-j', str(min(jobs, len(todo)))]
    env = {'CARGO_TARGET_DIR': os.path.join(common.BUILD, 'kani-target')}
    r = common.run(cmd, cwd=repo_copy, timeout=timeout, env=env)
    out = r['out'] + '\n' + r['err']
    parsed = parse_output(r['out'], todo, u['mod'])
    compile_failed = ('error: could not compile' in out or 'error[E' in out) and all(
        p['status'] == 'missing' for p in parsed.values())
    for h in todo:
        p = parsed[h]
        p['cached'] = False
        p['cmd'] = ' '.join(cmd).replace(repo_copy, '$REPO_COPY')
        if compile_failed:
            p['status'] = 'compile_error'
            p['detail'] = out[-3000:]
        elif p['status'] == 'missing':
            p['status'] = 'timeout' if r['timeout'] else 'resource'
            p['detail'] = out[-1500:]
        if playback:
            p['playback'] = extract_playback(r['out'], h)
        if p['status'] in ('success', 'failed') and not playback:
            common.cache_put('kani-' + common.sha(base_key, h), p)
        results[h] = p
    return results


def extract_playback(out, harness):
    """Concrete values (list of byte lists) for each failing (non-cover) check of `harness`."""
    tests = []
    for m in re.finditer(r'/// Test generated for harness `[^`]*?%s`\s*\n///\s*\n/// Check for `([^`]*)`: "([^"]*)"(.*?)kani::concrete_playback_run' % re.escape(harness),
                         out, re.S):
        cls, desc, body = m.group(1), m.group(2), m.group(3)
        vals = [[int(x) for x in v.split(',') if x.strip()] for v in re.findall(r'vec!\[([0-9, ]*)\],', body)]
        tests.append({'class': cls, 'desc': desc, 'values': vals})
    return tests
