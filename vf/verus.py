"""Assemble the two annotated crates + the leaf-predicate bridge and run Verus on them."""
import json
import os
import re

from . import common
from .extract import Overlay, Assembler
from .bridge import bridge_crate

CRATE_ATTRS = ('#![feature(allocator_api)]\n#![feature(sized_hierarchy)]\n'
               '#![allow(unused_imports, dead_code, unused_variables, unused_mut, unused_parens, unused_braces, '
               'unused_assignments, unreachable_code, unused_doc_comments, unused_macros)]\n'
               '// `write!` with the three format strings that occur in the Display impls is mapped to external_body\n'
               '// functions carrying the ASSUMED semantics of `{}` formatting (DESIGN.md section 6); anything else is std::write!\n'
               'macro_rules! write {\n'
               '    ($f:expr, "-{}", $a:expr) => { crate::vspec::vf_write_dash($f, &$a) };\n'
               '    ($f:expr, "{}{}", $a:expr, $b:expr) => { crate::vspec::vf_write2($f, &$a, &$b) };\n'
               '    ($f:expr, "{}{}{}", $a:expr, $b:expr, $c:expr) => { crate::vspec::vf_write3($f, &$a, &$b, &$c) };\n'
               '    ($($t:tt)*) => { std::write!($($t)*) };\n'
               '}\n')

CRATES = {
    'langid': {'dir': 'unic-langid-impl', 'name': 'unic_langid_impl', 'overlay': 'contracts/verus/langid.overlay'},
    'locale': {'dir': 'unic-locale-impl', 'name': 'unic_locale_impl', 'overlay': 'contracts/verus/locale.overlay'},
}

VERIFY_ERR = re.compile(
    r'^error: (postcondition not satisfied|precondition not satisfied|invariant not satisfied.*|assertion failed|'
    r'decreases not satisfied.*|possible arithmetic (underflow/overflow|overflow|underflow)|possible division by zero|'
    r'loop invariant.*|index out of bounds.*|.*might panic.*|unreachable_unchecked.*|cannot prove termination.*|'
    r'recommendation not met.*|could not prove termination|constructed value may fail to meet its declared type invariant|'
    r'possible bit shift underflow/overflow|the loop invariant.*|conversion.*may.*|.*not satisfied.*)')
RLIMIT_ERR = re.compile(r'Resource limit \(rlimit\) exceeded|rlimit exceeded|solver (gave up|timed out)')


def assemble(which, repo_dir, features=(), force_degrade=None):
    c = CRATES[which]
    ov = Overlay(os.path.join(common.VERIF, c['overlay']))
    a = Assembler(os.path.join(repo_dir, c['dir']), ov, features)
    a.force_degrade = dict(force_degrade or {})
    text = a.assemble(CRATE_ATTRS)
    a.manifest['degraded'] = a.degraded
    return text, a.manifest, a.errors, ov


def fn_line_map(text):
    """[(lo, hi, name)] line ranges (1-based) of functions under contract in the assembled text."""
    out = []
    cur = None
    for n, line in enumerate(text.split('\n'), 1):
        if line.startswith('//#begin-fn '):
            cur = (n, line[len('//#begin-fn '):].strip())
        elif line.startswith('//#end-fn') and cur:
            out.append((cur[0], n, cur[1]))
            cur = None
    return out


def parse_errors(stderr, fname, linemap, text_lines):
    """Split Verus/rustc stderr into diagnostics; classify; attribute to functions by line."""
    diags = []
    blocks = re.split(r'\n(?=(?:error|warning|note)(?:\[[A-Z0-9]+\])?:)', '\n' + stderr)
    for b in blocks:
        b = b.strip('\n')
        if not b.startswith('error'):
            continue
        head = b.split('\n', 1)[0]
        if head.startswith('error: aborting due to'):
            continue
        m = re.search(r'--> %s:(\d+):(\d+)' % re.escape(fname), b)
        line = int(m.group(1)) if m else None
        # all line refs inside the block (the failing clause and the exit point)
        lines = [int(x) for x in re.findall(r'^\s*(\d+) [|/]', b, re.M)]
        fn = None
        probe = [line] + lines if line else lines
        for ln in probe:
            for lo, hi, name in linemap:
                if lo <= ln <= hi:
                    fn = name
                    break
            if fn:
                break
        if fn is None and line:
            # proof fn / lemma in overlay text: find enclosing `fn name` above
            for k in range(line - 1, max(0, line - 400), -1):
                mm = re.match(r'\s*(?:pub\s+)?(?:open\s+|closed\s+|broadcast\s+|uninterp\s+)*(?:proof|spec|exec)?\s*fn\s+(\w+)', text_lines[k - 1])
                if mm:
                    fn = 'lemma :: ' + mm.group(1)
                    break
        if VERIFY_ERR.match(head):
            kind = 'verify'
        elif RLIMIT_ERR.search(b):
            kind = 'rlimit'
        else:
            kind = 'other'
        clause = text_lines[line - 1].strip() if line and line <= len(text_lines) else ''
        diags.append({'kind': kind, 'head': head, 'line': line, 'fn': fn, 'clause': clause[:300], 'text': b[:3000]})
    return diags


def scan_assumptions(text):
    """Mechanical scan of the text handed to Verus for everything that is assumed rather than proved."""
    out = {'assume_specification': [], 'external_body': [], 'admit': [], 'assume': []}
    for m in re.finditer(r'assume_specification\s*(?:<[^\[]*>)?\s*\[\s*([^\]]+(?:\][^\]]*)?)\]\s*\(', text):
        out['assume_specification'].append(re.sub(r'\s+', ' ', m.group(1)).strip()[:120])
    for m in re.finditer(r'#\[verifier::external_body\]\s*(?:#\[[^\]]*\]\s*)*(?:pub(?:\([a-z]+\))?\s+)?(?:const\s+)?(?:unsafe\s+)?(?:struct|fn)\s+(\w+)', text):
        out['external_body'].append(m.group(1))
    for m in re.finditer(r'fn\s+(\w+)[^{;]*\{[^{}]*\badmit\(\)', text):
        out['admit'].append(m.group(1))
    for m in re.finditer(r'[^_a-z]assume\((?!false\) ==>)', text):
        ln = text.count('\n', 0, m.start()) + 1
        out['assume'].append('line %d' % ln)
    return out


def _diag_fn_key(name):
    """'lib.rs :: impl LanguageIdentifier :: matches' -> ('lib.rs', 'impl LanguageIdentifier', 'matches')"""
    parts = [p.strip() for p in name.split(' :: ')]
    if len(parts) == 2:
        return (parts[0], '', parts[1])
    if len(parts) >= 3:
        return (parts[0], ' :: '.join(parts[1:-1]), parts[-1])
    return None


def run_crate(which, work, repo_dir, features=(), deps=None, rlimit=None, extra_text=''):
    """Assemble + verify one crate.  If the annotated text of some functions under contract does not compile (a body was
    restructured so that a hint lands in the wrong place, or it now calls something outside the contracts), those functions
    are re-emitted with their contract only (their own obligation is UNDECIDED) and the rest of the crate is still verified."""
    force = {}
    res = None
    for _round in range(4):
        res = _run_crate(which, work, repo_dir, features, deps, rlimit, extra_text, force)
        if not res.get('compile_failed') or res.get('timeout'):
            break
        new = {}
        for d in res.get('diags', []):
            if d['kind'] == 'other' and d.get('fn') and not d['fn'].startswith('lemma ::'):
                k = _diag_fn_key(d['fn'])
                if k and k not in force:
                    new[k] = 'annotated body does not compile / uses a construct outside the contracts: ' + d['head'][:200]
        if not new:
            break
        force.update(new)
    return res


def _run_crate(which, work, repo_dir, features, deps, rlimit, extra_text, force):
    c = CRATES[which]
    text, manifest, aerrors, ov = assemble(which, repo_dir, features, force)
    text += extra_text
    fname = which + '.rs'
    path = os.path.join(work, fname)
    open(path, 'w').write(text)
    rlib = common.tinystr_rlib()
    cmd = ['verus', fname, '--crate-type=lib', '--crate-name', c['name'], '--extern', 'tinystr=' + rlib,
           '-L', 'dependency=' + common.TINY_DEPS, '--multiple-errors', '20', '--output-json', '--time-expanded']
    for f in features:
        cmd += ['--cfg', 'feature="%s"' % f]
    if rlimit:
        cmd += ['--rlimit', str(rlimit)]
    dep_key = ''
    if deps:
        for name, (rl, vir, key) in deps.items():
            cmd += ['--extern', '%s=%s' % (name, rl), '--import', '%s=%s' % (name, vir)]
            dep_key += key
    key = 'verus-' + common.sha(text, ' '.join(cmd[1:]).replace(work, '$W'), dep_key, json.dumps(common.tool_versions(), sort_keys=True))
    res = common.cache_get(key)
    cached = res is not None
    if res is None:
        r = common.run(cmd, cwd=work, timeout=1200)
        res = parse_run(r, fname, text)
        res['cmd'] = ' '.join(cmd).replace(work, '$W')
        if not r['timeout']:
            common.cache_put(key, res)
    res = dict(res)
    res['cached'] = cached
    res['key'] = key
    res['manifest'] = manifest
    res['assemble_errors'] = aerrors
    res['path'] = path
    res['includes'] = ov.includes + [ov.path]
    res['text_sha256'] = common.sha(text)
    res['assumption_scan'] = scan_assumptions(text)
    return res


def export_crate(which, work, features=()):
    """Compile + export an already assembled crate WITHOUT verifying it, so that a dependent crate
    can be verified modularly against its contracts even when some of its own obligations fail."""
    c = CRATES[which]
    fname = which + '.rs'
    rlib = common.tinystr_rlib()
    out_rlib = os.path.join(work, 'lib%s.rlib' % c['name'])
    out_vir = os.path.join(work, which + '.vir')
    cmd = ['verus', fname, '--crate-type=lib', '--crate-name', c['name'], '--extern', 'tinystr=' + rlib,
           '-L', 'dependency=' + common.TINY_DEPS, '--no-verify', '--compile', '--export', out_vir, '-o', out_rlib]
    for f in features:
        cmd += ['--cfg', 'feature="%s"' % f]
    r = common.run(cmd, cwd=work, timeout=600)
    ok = r['rc'] == 0 and os.path.exists(out_rlib) and os.path.exists(out_vir)
    return ok, out_rlib, out_vir, r


def parse_run(r, fname, text):
    text_lines = text.split('\n')
    linemap = fn_line_map(text)
    res = {'rc': r['rc'], 'wall_s': r['wall_s'], 'timeout': r['timeout'], 'functions': {}, 'diags': [],
           'verified': 0, 'errors': 0, 'compile_failed': False, 'smt_ms': 0}
    js = None
    out = r['out']
    i = out.find('{')
    if i >= 0:
        try:
            js = json.loads(out[i:])
        except Exception:
            js = None
    res['diags'] = parse_errors(r['err'], fname, linemap, text_lines)
    if js is None:
        res['compile_failed'] = True
        res['stderr_tail'] = r['err'][-4000:]
        return res
    vr = js.get('verification-results', {})
    res['verified'] = vr.get('verified', 0)
    res['errors'] = vr.get('errors', 0)
    res['encountered_vir_error'] = vr.get('encountered-vir-error', False)
    if vr.get('encountered-vir-error') or (not vr.get('success') and vr.get('verified', 0) == 0 and vr.get('errors', 0) == 0):
        res['compile_failed'] = True
        res['stderr_tail'] = r['err'][-4000:]
    smt = js.get('times-ms', {}).get('smt', {})
    res['smt_ms'] = smt.get('smt-run', 0)
    res['verus_version'] = js.get('verus', {})
    for m in smt.get('smt-run-module-times', []):
        for f in m.get('function-breakdown', []):
            name = f['function']
            e = res['functions'].setdefault(name, {'success': True, 'time_us': 0, 'rlimit': 0, 'mode': f.get('mode:', '')})
            e['success'] = e['success'] and bool(f.get('success'))
            e['time_us'] += f.get('time-micros', 0)
            e['rlimit'] += f.get('rlimit', 0)
    return res


def run_mustfail(which, work, repo_dir, features=(), deps=None):
    """Vacuity guard: the same crate with contracts/verus/mustfail_<crate>.rs appended; every zz_must_fail_* function has to be
    rejected by Verus (and the rest of the crate is unchanged, so nothing else may fail either)."""
    extra = open(os.path.join(common.VERIF, 'contracts/verus/mustfail_%s.rs' % which)).read()
    names = re.findall(r'fn (zz_must_fail_\w+)', extra)
    # the guard text goes before the final closing of the crate? No: the assembled crate is `verus! { ... }` + plain items, so a
    # separate module with its own verus! block is appended after it
    r = run_crate(which, work, repo_dir, features, deps=deps, extra_text=extra)
    accepted = [n for n in names if any(k.endswith('::' + n) and v['success'] for k, v in r['functions'].items())]
    seen = [n for n in names if any(k.endswith('::' + n) for k in r['functions'])]
    others_failed = [k for k, v in r['functions'].items() if not v['success'] and not any(k.endswith('::' + n) for n in names)]
    r['mustfail'] = {'names': names, 'accepted': accepted, 'seen': seen, 'others_failed': others_failed}
    return r


def run_bridge(work):
    prelude = open(os.path.join(common.VERIF, 'contracts/verus/prelude.rs')).read()
    preds = open(os.path.join(common.VERIF, 'contracts/leaf_preds.rs')).read()
    text = bridge_crate(prelude, preds)
    fname = 'bridge.rs'
    open(os.path.join(work, fname), 'w').write(text)
    cmd = ['verus', fname, '--extern', 'tinystr=' + common.tinystr_rlib(), '-L', 'dependency=' + common.TINY_DEPS,
           '--multiple-errors', '20', '--output-json', '--time-expanded']
    key = 'verus-' + common.sha(text, ' '.join(cmd[1:]), json.dumps(common.tool_versions(), sort_keys=True))
    res = common.cache_get(key)
    cached = res is not None
    if res is None:
        r = common.run(cmd, cwd=work, timeout=600)
        res = parse_run(r, fname, text)
        res['cmd'] = ' '.join(cmd)
        if not r['timeout']:
            common.cache_put(key, res)
    res = dict(res)
    res['cached'] = cached
    res['text_sha256'] = common.sha(text)
    res['assumption_scan'] = scan_assumptions(text)
    return res
