//! Executable reference for the productions quoted in the properties (written from the statements,
//! not from the library) + a bounded search for inputs on which the real library disagrees.
use crate::preds::*;
use unic_langid_impl::parser::ParserError as LidErr;
use unic_langid_impl::{LanguageIdentifier, LanguageIdentifierError};

pub fn split(v: &[u8]) -> Vec<&[u8]> {
    v.split(|c| *c == b'-' || *c == b'_').collect()
}
fn lower(v: &[u8]) -> Vec<u8> { v.iter().map(|c| x_lower_b(*c)).collect() }
fn upper(v: &[u8]) -> Vec<u8> { v.iter().map(|c| x_upper_b(*c)).collect() }
fn title(v: &[u8]) -> Vec<u8> {
    v.iter().enumerate().map(|(i, c)| if i == 0 { x_upper_b(*c) } else { x_lower_b(*c) }).collect()
}

#[derive(Debug, PartialEq, Clone)]
pub enum RefErr { InvalidLanguage, InvalidSubtag }

/// C02: (canonical string, number of subtags consumed) for the language-identifier production
pub fn ref_lid(t: &[&[u8]], allow_ext: bool) -> Result<(String, usize), RefErr> {
    if t.is_empty() || !x_is_language(t[0]) { return Err(RefErr::InvalidLanguage); }
    let mut out = lower(t[0]);
    let mut k = 1;
    if k < t.len() && x_is_script(t[k]) { out.push(b'-'); out.extend(title(t[k])); k += 1; }
    if k < t.len() && x_is_region(t[k]) { out.push(b'-'); out.extend(upper(t[k])); k += 1; }
    let mut vars: Vec<Vec<u8>> = vec![];
    while k < t.len() && x_is_variant(t[k]) { vars.push(lower(t[k])); k += 1; }
    if k < t.len() && !allow_ext { return Err(RefErr::InvalidSubtag); }
    vars.sort();
    vars.dedup();
    for v in vars { out.push(b'-'); out.extend(v); }
    Ok((String::from_utf8(out).unwrap(), k))
}

pub fn lid_disagrees(v: &[u8]) -> Option<String> {
    let t = split(v);
    let want = ref_lid(&t, false).map(|x| x.0);
    let got = match LanguageIdentifier::from_bytes(v) {
        Ok(l) => Ok(l.to_string()),
        Err(LanguageIdentifierError::ParserError(LidErr::InvalidLanguage)) => Err(RefErr::InvalidLanguage),
        Err(_) => Err(RefErr::InvalidSubtag),
    };
    if want != got {
        Some(format!("LanguageIdentifier::from_bytes(b\"{}\") = {:?}, the grammar of C02 gives {:?}", crate::esc(v), got, want))
    } else { None }
}


// ---- extensions: executable mirror of the recogniser ext_parse (contracts/verus/locale_spec.rs) ----
fn u_shaped(s: &[u8]) -> bool { s.len() == 2 || x_is_utype(s) }
fn kv_fold(t: &[&[u8]], is_key: fn(&[u8]) -> bool) -> std::collections::BTreeMap<Vec<u8>, Vec<Vec<u8>>> {
    let mut m = std::collections::BTreeMap::new();
    let mut cur: Option<Vec<u8>> = None;
    for s in t {
        if is_key(s) { cur = Some(lower(s)); m.insert(lower(s), vec![]); }
        else if let Some(k) = &cur { if lower(s) != b"true" { m.get_mut(k).unwrap().push(lower(s)); } }
    }
    m
}
fn len2(s: &[u8]) -> bool { s.len() == 2 }
fn push_kv(out: &mut Vec<u8>, m: &std::collections::BTreeMap<Vec<u8>, Vec<Vec<u8>>>) {
    for (k, vs) in m { out.push(b'-'); out.extend(k); for v in vs { out.push(b'-'); out.extend(v); } }
}
/// Ok(canonical extension string) or Err
pub fn ref_ext(t: &[&[u8]]) -> Result<String, ()> {
    let (mut u, mut tt, mut x): (Option<Vec<u8>>, Option<Vec<u8>>, Option<Vec<u8>>) = (None, None, None);
    let mut i = 0;
    while i < t.len() {
        let s = t[i];
        if s.is_empty() { i += 1; continue; }
        if s.len() > 1 { return Err(()); }
        let body = &t[i + 1..];
        match x_lower_b(s[0]) {
            b'u' => {
                if u.is_some() { return Err(()); }
                let mut e = 0;
                while e < body.len() && u_shaped(body[e]) { e += 1; }
                if body[..e].iter().any(|s| s.len() == 2 && !x_is_ukey(s)) { return Err(()); }
                let fk = body[..e].iter().position(|s| s.len() == 2).unwrap_or(e);
                let mut attrs: Vec<Vec<u8>> = body[..fk].iter().map(|s| lower(s)).collect();
                attrs.sort(); attrs.dedup();
                let kw = kv_fold(&body[..e], len2);
                let mut out = vec![];
                if !(attrs.is_empty() && kw.is_empty()) {
                    out.extend(b"-u");
                    for a in attrs { out.push(b'-'); out.extend(a); }
                    push_kv(&mut out, &kw);
                }
                u = Some(out);
                i = i + 1 + e;
            }
            b't' => {
                if tt.is_some() { return Err(()); }
                let has_lang = !body.is_empty() && x_lang_shaped(body[0]);
                let mut out_lang = None;
                let mut f0 = 0;
                if has_lang {
                    match ref_lid(body, true) { Ok((s, n)) => { out_lang = Some(s); f0 = n; } Err(_) => return Err(()) }
                    if f0 < body.len() && x_lang_shaped(body[f0]) { return Err(()); }
                }
                let mut e = f0;
                if f0 < body.len() && x_is_tkey(body[f0]) {
                    while e < body.len() && body[e].len() != 1 { e += 1; }
                    if body[f0..e].iter().any(|s| !x_is_tkey(s) && !x_is_utype(s)) { return Err(()); }
                }
                let fields = kv_fold(&body[f0..e], |s| x_is_tkey(s));
                let mut out = vec![];
                if out_lang.is_some() || !fields.is_empty() {
                    out.extend(b"-t");
                    if let Some(l) = out_lang { out.push(b'-'); out.extend(l.as_bytes()); }
                    push_kv(&mut out, &fields);
                }
                tt = Some(out);
                i = i + 1 + e;
            }
            b'x' => {
                if body.iter().any(|s| !x_is_private(s)) { return Err(()); }
                let mut tags: Vec<Vec<u8>> = body.iter().map(|s| lower(s)).collect();
                tags.sort();
                let mut out = vec![];
                if !tags.is_empty() { out.extend(b"-x"); for g in tags { out.push(b'-'); out.extend(g); } }
                x = Some(out);
                i = t.len();
            }
            _ => return Err(()),
        }
    }
    let mut out = vec![];
    out.extend(tt.unwrap_or_default()); out.extend(u.unwrap_or_default()); out.extend(x.unwrap_or_default());
    Ok(String::from_utf8(out).unwrap())
}

pub fn ref_locale(v: &[u8]) -> Result<String, ()> {
    let t = split(v);
    let (id, n) = ref_lid(&t, true).map_err(|_| ())?;
    Ok(id + &ref_ext(&t[n..])?)
}

pub fn locale_disagrees(v: &[u8]) -> Option<String> {
    let want = ref_locale(v);
    let got = std::panic::catch_unwind(|| unic_locale_impl::Locale::from_bytes(v).map(|l| l.to_string()));
    let got2: Result<String, ()> = match &got { Ok(Ok(s)) => Ok(s.clone()), _ => Err(()) };
    if got.is_err() {
        return Some(format!("Locale::from_bytes(b\"{}\") PANICKED; the grammar of C03 gives {:?}", crate::esc(v), want));
    }
    if want != got2 {
        Some(format!("Locale::from_bytes(b\"{}\") = {:?}, the recogniser of C03 gives {:?}", crate::esc(v), got.unwrap().map_err(|e| format!("{:?}", e)), want))
    } else { None }
}

/// boundary-class token alphabet of C01/C02's quantifier
pub fn alphabet() -> Vec<Vec<u8>> {
    let mut a: Vec<Vec<u8>> = vec![];
    for len in 0..=9usize {
        for pat in 0..6 {
            let mut s = vec![];
            for i in 0..len {
                s.push(match pat {
                    0 => b'a',
                    1 => b'1',
                    2 => if i == 0 { b'1' } else { b'a' },
                    3 => if i == 0 { b'a' } else { b'1' },
                    4 => if i + 1 == len { b'.' } else { b'a' },
                    _ => if i == 0 { b'Z' } else { b'z' },
                });
            }
            if !a.contains(&s) { a.push(s); }
        }
    }
    for w in ["und", "true", "root", "en", "US", "Latn", "macos", "1996", "u", "t", "x", "a", "ca", "h0", "*", " ", "\0", "\u{80}"] {
        a.push(w.as_bytes().to_vec());
    }
    a.push(vec![0xff, 0xfe]);
    a
}

pub fn search(what: &str, _seed: u64) -> Option<(Vec<u8>, String)> {
    let a = alphabet();
    let check: fn(&[u8]) -> Option<String> = match what {
        "lid" => lid_disagrees,
        "locale" => locale_disagrees,
        "rt" | "inv" | "mut" | "fromparts" | "matches" | "serde" | "likely" | "super" | "ord" => locale_disagrees,
        _ => return None,
    };
    if what == "locale" { return search_locale(); }
    if what == "rt" { return crate::bounded::rt_search(); }
    if what == "inv" { return crate::bounded::inv_search(); }
    if what == "mut" { return crate::bounded::mut_search(); }
    if what == "fromparts" { return crate::bounded::fromparts_search(); }
    if what == "matches" { return crate::bounded::matches_search(); }
    if what == "serde" { return crate::bounded::serde_search(); }
    if what == "likely" { return crate::bounded::likely_search(); }
    if what == "super" { return crate::bounded::super_search(); }
    if what == "ord" { return crate::bounded::ord_search(); }
    // sequences of up to 4 subtags: first from a small set of heads, rest from the alphabet
    let heads: Vec<Vec<u8>> = vec![b"en".to_vec(), b"und".to_vec(), b"EN".to_vec(), b"e".to_vec(), b"root".to_vec(), b"abcde".to_vec(), b"abcdefgh".to_vec()];
    let mut buf: Vec<u8> = vec![];
    for h in &heads {
        for n in 0..=3usize {
            let mut idx = vec![0usize; n];
            loop {
                buf.clear();
                buf.extend(h);
                for i in &idx { buf.push(b'-'); buf.extend(&a[*i]); }
                if let Some(d) = check(&buf) { return Some((buf.clone(), d)); }
                let mut p = 0;
                while p < n { idx[p] += 1; if idx[p] < a.len() { break; } idx[p] = 0; p += 1; }
                if p == n { break; }
            }
        }
    }
    None
}

/// locale search: "en" followed by up to 5 subtags from an extension-oriented alphabet
fn search_locale() -> Option<(Vec<u8>, String)> {
    let a: Vec<&[u8]> = vec![b"u", b"t", b"x", b"a", b"U", b"ca", b"nu", b"h0", b"m0", b"1a", b"a1", b"en", b"de", b"US", b"Latn", b"latn",
        b"macos", b"1996", b"true", b"TRUE", b"buddhist", b"gregory", b"hybrid", b"abc", b"ab1", b"toolongsubtag", b"", b"!", b"ux", b"foo", b"zz9", b"419", b"und", b"x1", b"1", b"9", b"Z"];
    let mut buf: Vec<u8> = vec![];
    for n in 1..=5usize {
        let mut idx = vec![0usize; n];
        loop {
            buf.clear();
            buf.extend(b"en");
            for i in &idx { buf.push(b'-'); buf.extend(a[*i]); }
            if let Some(d) = locale_disagrees(&buf) { return Some((buf.clone(), d)); }
            let mut p = 0;
            while p < n { idx[p] += 1; if idx[p] < a.len() { break; } idx[p] = 0; p += 1; }
            if p == n { break; }
        }
    }
    None
}
