//! Executable reference for the productions quoted in the properties (written from the statements,
//! not from the library) + a bounded search for inputs on which the real library disagrees.
use crate::preds::*;
use unic_langid_impl::parser::ParserError as LidErr;
use unic_langid_impl::{LanguageIdentifier, LanguageIdentifierError};

pub fn split(v: &[u8]) -> Vec<&[u8]> {
    v.split(|c| *c == b'-' || *c == b'_').collect()
}
fn lower(v: &[u8]) -> Vec<u8> { v.iter().map(|c| x_lower_b(*c)).collect() }
fn upper(v: &[u8]) -> Vec<u8> { v.iter().map(|c| x_upper_b(*c)).collect() }
fn title(v: &[u8]) -> Vec<u8> {
    v.iter().enumerate().map(|(i, c)| if i == 0 { x_upper_b(*c) } else { x_lower_b(*c) }).collect()
}

#[derive(Debug, PartialEq, Clone)]
pub enum RefErr { InvalidLanguage, InvalidSubtag }

/// C02: (canonical string, number of subtags consumed) for the language-identifier production
pub fn ref_lid(t: &[&[u8]], allow_ext: bool) -> Result<(String, usize), RefErr> {
    if t.is_empty() || !x_is_language(t[0]) { return Err(RefErr::InvalidLanguage); }
    let mut out = lower(t[0]);
    let mut k = 1;
    if k < t.len() && x_is_script(t[k]) { out.push(b'-'); out.extend(title(t[k])); k += 1; }
    if k < t.len() && x_is_region(t[k]) { out.push(b'-'); out.extend(upper(t[k])); k += 1; }
    let mut vars: Vec<Vec<u8>> = vec![];
    while k < t.len() && x_is_variant(t[k]) { vars.push(lower(t[k])); k += 1; }
    if k < t.len() && !allow_ext { return Err(RefErr::InvalidSubtag); }
    vars.sort();
    vars.dedup();
    for v in vars { out.push(b'-'); out.extend(v); }
    Ok((String::from_utf8(out).unwrap(), k))
}

pub fn lid_disagrees(v: &[u8]) -> Option<String> {
    let t = split(v);
    let want = ref_lid(&t, false).map(|x| x.0);
    let got = match LanguageIdentifier::from_bytes(v) {
        Ok(l) => Ok(l.to_string()),
        Err(LanguageIdentifierError::ParserError(LidErr::InvalidLanguage)) => Err(RefErr::InvalidLanguage),
        Err(_) => Err(RefErr::InvalidSubtag),
    };
    if want != got {
        Some(format!("LanguageIdentifier::from_bytes(b\"{}\") = {:?}, the grammar of C02 gives {:?}", crate::esc(v), got, want))
    } else { None }
}

pub fn locale_disagrees(_v: &[u8]) -> Option<String> { None }

/// boundary-class token alphabet of C01/C02's quantifier
pub fn alphabet() -> Vec<Vec<u8>> {
    let mut a: Vec<Vec<u8>> = vec![];
    for len in 0..=9usize {
        for pat in 0..6 {
            let mut s = vec![];
            for i in 0..len {
                s.push(match pat {
                    0 => b'a',
                    1 => b'1',
                    2 => if i == 0 { b'1' } else { b'a' },
                    3 => if i == 0 { b'a' } else { b'1' },
                    4 => if i + 1 == len { b'.' } else { b'a' },
                    _ => if i == 0 { b'Z' } else { b'z' },
                });
            }
            if !a.contains(&s) { a.push(s); }
        }
    }
    for w in ["und", "true", "root", "en", "US", "Latn", "macos", "1996", "u", "t", "x", "a", "ca", "h0", "*", " ", "\0", "\u{80}"] {
        a.push(w.as_bytes().to_vec());
    }
    a.push(vec![0xff, 0xfe]);
    a
}

pub fn search(what: &str, _seed: u64) -> Option<(Vec<u8>, String)> {
    let a = alphabet();
    let check: fn(&[u8]) -> Option<String> = match what {
        "lid" => lid_disagrees,
        "locale" => locale_disagrees,
        _ => return None,
    };
    // sequences of up to 4 subtags: first from a small set of heads, rest from the alphabet
    let heads: Vec<Vec<u8>> = vec![b"en".to_vec(), b"und".to_vec(), b"EN".to_vec(), b"e".to_vec(), b"root".to_vec()];
    let mut buf: Vec<u8> = vec![];
    for h in &heads {
        for n in 0..=3usize {
            let mut idx = vec![0usize; n];
            loop {
                buf.clear();
                buf.extend(h);
                for i in &idx { buf.push(b'-'); buf.extend(&a[*i]); }
                if let Some(d) = check(&buf) { return Some((buf.clone(), d)); }
                let mut p = 0;
                while p < n { idx[p] += 1; if idx[p] < a.len() { break; } idx[p] = 0; p += 1; }
                if p == n { break; }
            }
        }
    }
    None
}
