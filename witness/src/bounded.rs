//! Bounded stand-ins on the REAL library (never counted as proved; bounds stated in each function's doc):
//!   rt        C05  parse(to_string(x)) == x for every value parsed from the bounded token space (Locale, ExtensionsMap, ids)
//!   inv       C09  structured locales written in two ways (case, separators, order / repetition of unordered parts) parse alike
//!   mut       C10  every sequence of <= 2 mutator calls from an argument alphabet, on 3 start values, against a set/map model
//!   fromparts C17  from_parts over every variant list of length <= 3 from 3 variants (any order, duplicates) == parsing the joined string
//! Each returns Some((replay token, description)) for the first disagreement.
use std::collections::{BTreeMap, BTreeSet};
use unic_langid_impl::subtags::{Language, Region, Script, Variant};
use unic_langid_impl::LanguageIdentifier;
use unic_locale_impl::extensions::ExtensionsMap;
use unic_locale_impl::Locale;

fn cand_lang(l: &LanguageIdentifier) -> &str { l.language.as_str() }
fn hex(b: &[u8]) -> String { b.iter().map(|c| format!("{:02x}", c)).collect() }

// ------------------------------------------------------------------------------------------------ rt (C05)
pub fn rt_check(v: &[u8]) -> Option<String> {
    if let Ok(l) = Locale::from_bytes(v) {
        let s = l.to_string();
        match Locale::from_bytes(s.as_bytes()) {
            Ok(l2) => {
                if l2 != l { return Some(format!("Locale::from_bytes(b\"{}\") prints \"{}\", which re-parses to a DIFFERENT value (prints \"{}\")", crate::esc(v), s, l2)); }
                if l2.to_string() != s { return Some(format!("to_string of the re-parsed \"{}\" is \"{}\"", s, l2)); }
            }
            Err(e) => return Some(format!("Locale::from_bytes(b\"{}\") prints \"{}\", which does not re-parse: {:?}", crate::esc(v), s, e)),
        }
        let es = l.extensions.to_string();
        match ExtensionsMap::from_bytes(es.as_bytes()) {
            Ok(e2) => if e2 != l.extensions { return Some(format!("extensions of b\"{}\" print \"{}\", which re-parses to a different ExtensionsMap", crate::esc(v), es)); },
            Err(e) => return Some(format!("extensions of b\"{}\" print \"{}\", which does not re-parse: {:?}", crate::esc(v), es, e)),
        }
        // C04: the output is the fixpoint of the independent canonicaliser (reference.rs, written from the statement) and
        // canonicalize is never longer than its input
        if crate::reference::ref_locale(s.as_bytes()).ok().as_deref() != Some(s.as_str()) {
            return Some(format!("to_string of b\"{}\" is \"{}\", which the independent canonicaliser maps to {:?} (not canonical)", crate::esc(v), s, crate::reference::ref_locale(s.as_bytes())));
        }
        if s.len() > v.len() { return Some(format!("canonical form \"{}\" is longer than the input b\"{}\"", s, crate::esc(v))); }
        // canonicalize is idempotent
        let c1 = unic_locale_impl::canonicalize(v).ok();
        let c2 = c1.as_ref().and_then(|c| unic_locale_impl::canonicalize(c).ok());
        if c1.is_none() || c1 != c2 || c1.as_deref() != Some(s.as_str()) {
            return Some(format!("canonicalize(b\"{}\") = {:?}, canonicalize of that = {:?}, to_string = \"{}\"", crate::esc(v), c1, c2, s));
        }
    }
    if let Ok(l) = LanguageIdentifier::from_bytes(v) {
        let s = l.to_string();
        // C12: `== &str` is true iff the string is the canonical text
        let under = s.replace('-', "_");
        let upper = s.to_ascii_uppercase();
        let vs = String::from_utf8_lossy(v).to_string();
        for cand in [s.as_str(), under.as_str(), upper.as_str(), vs.as_str(), "en", ""] {
            if (l == cand) != (cand == s) { return Some(format!("LanguageIdentifier \"{}\" == \"{}\" is {}, but the canonical text is \"{}\"", s, cand, l == cand, s)); }
        }
        if (l.language == cand_lang(&l)) != true { return Some(format!("Language of \"{}\" != its own as_str()", s)); }
        match LanguageIdentifier::from_bytes(s.as_bytes()) {
            Ok(l2) => if l2 != l { return Some(format!("LanguageIdentifier b\"{}\" prints \"{}\", which re-parses to a different value", crate::esc(v), s)); },
            Err(e) => return Some(format!("LanguageIdentifier b\"{}\" prints \"{}\", which does not re-parse: {:?}", crate::esc(v), s, e)),
        }
    }
    None
}
/// bound: "en" / "und" / "EN-latn" heads followed by <= 4 subtags of a 36-token extension-oriented alphabet
pub fn rt_search() -> Option<(Vec<u8>, String)> {
    let a: Vec<&[u8]> = vec![b"u", b"t", b"x", b"T", b"ca", b"nu", b"h0", b"m0", b"1a", b"en", b"de", b"US", b"Latn", b"latn", b"und", b"UND",
        b"macos", b"1996", b"1abc", b"true", b"TRUE", b"buddhist", b"Hybrid", b"abc", b"ab1", b"foo", b"bar", b"419", b"x1", b"a", b"zz", b"", b"!", b"abcdefgh", b"valencia", b"co"];
    let heads: Vec<&[u8]> = vec![b"en", b"und", b"EN_latn", b"Und-t-UND"];
    let mut buf: Vec<u8> = vec![];
    for h in &heads {
        for n in 0..=4usize {
            let mut idx = vec![0usize; n];
            loop {
                buf.clear();
                buf.extend(*h);
                for i in &idx { buf.push(b'-'); buf.extend(a[*i]); }
                if let Some(d) = rt_check(&buf) { return Some((buf.clone(), d)); }
                let mut p = 0;
                while p < n { idx[p] += 1; if idx[p] < a.len() { break; } idx[p] = 0; p += 1; }
                if p == n { break; }
            }
        }
    }
    None
}

// ------------------------------------------------------------------------------------------------ inv (C09)
fn perms<T: Clone>(v: &[T]) -> Vec<Vec<T>> {
    if v.len() <= 1 { return vec![v.to_vec()]; }
    let mut out = vec![];
    for i in 0..v.len() {
        let mut rest = v.to_vec();
        let x = rest.remove(i);
        for mut p in perms(&rest) { p.insert(0, x.clone()); out.push(p); }
    }
    out
}
fn subsets<T: Clone>(v: &[T]) -> Vec<Vec<T>> {
    (0..(1usize << v.len())).map(|m| v.iter().enumerate().filter(|(i, _)| m >> i & 1 == 1).map(|(_, x)| x.clone()).collect()).collect()
}
fn join(parts: &[String], sep: char) -> String {
    let mut s = String::new();
    for (i, p) in parts.iter().enumerate() { if i > 0 { s.push(sep); } s.push_str(p); }
    s
}
fn mask_case(s: &str, mask: u32) -> String {
    s.chars().enumerate().map(|(i, c)| if mask >> (i % 17) & 1 == 1 { c.to_ascii_uppercase() } else { c.to_ascii_lowercase() }).collect()
}
pub fn inv_pair(a: &str, b: &str) -> Option<String> {
    let (pa, pb) = (Locale::from_bytes(a.as_bytes()), Locale::from_bytes(b.as_bytes()));
    match (pa, pb) {
        (Ok(x), Ok(y)) => if x != y || x.to_string() != y.to_string() {
            Some(format!("\"{}\" and \"{}\" differ only in case / separators / order of unordered parts but parse to \"{}\" and \"{}\"", a, b, x, y)) } else { None },
        (Err(_), Err(_)) => None,
        (x, y) => Some(format!("\"{}\" parses to {:?} but its rewriting \"{}\" to {:?}", a, x.map(|l| l.to_string()), b, y.map(|l| l.to_string()))),
    }
}
/// bound: language x {no script, Latn} x {no region, US}; variant sets from {macos, 1996, valencia} (all permutations, one
/// duplicated element); -u- attributes from {foo, bar}; keywords from {ca-buddhist, nu, co-phonebk-trad}; -t- tlang
/// {none, es-ar}; tfields from {h0-hybrid, m0-names}; both orders of -u-/-t-; optional -x-a-b; 3 case masks; both separators
pub fn inv_search() -> Option<(Vec<u8>, String)> {
    let variants = ["macos", "1996", "valencia"];
    let attrs = ["foo", "bar"];
    let kws: [&[&str]; 3] = [&["ca", "buddhist"], &["nu"], &["co", "phonebk", "trad"]];
    let tfs: [&[&str]; 2] = [&["h0", "hybrid"], &["m0", "names"]];
    for head in [vec!["en"], vec!["en", "latn"], vec!["und", "US"], vec!["en", "Latn", "us"]] {
        for vs in subsets(&variants) {
            for asub in subsets(&attrs) {
                for ksub in subsets(&kws) {
                    for tl in [None, Some(vec!["es", "ar"])] {
                        for tsub in subsets(&tfs) {
                            for px in [false, true] {
                                // canonical writing A
                                let mut a: Vec<String> = head.iter().map(|s| s.to_string()).collect();
                                a.extend(vs.iter().map(|s| s.to_string()));
                                let mut ublock: Vec<String> = vec![];
                                if !asub.is_empty() || !ksub.is_empty() { ublock.push("u".into()); ublock.extend(asub.iter().map(|s| s.to_string())); for k in &ksub { ublock.extend(k.iter().map(|s| s.to_string())); } }
                                let mut tblock: Vec<String> = vec![];
                                if tl.is_some() || !tsub.is_empty() { tblock.push("t".into()); if let Some(t) = &tl { tblock.extend(t.iter().map(|s| s.to_string())); } for k in &tsub { tblock.extend(k.iter().map(|s| s.to_string())); } }
                                let xblock: Vec<String> = if px { vec!["x".into(), "a".into(), "b".into()] } else { vec![] };
                                let mut full_a = a.clone(); full_a.extend(tblock.clone()); full_a.extend(ublock.clone()); full_a.extend(xblock.clone());
                                let sa = join(&full_a, '-');
                                // rewritings B: permuted variants (+ one duplicate), permuted attributes (+ duplicate), permuted keywords / tfields, u before t
                                for pv in perms(&vs) { for pa in perms(&asub) { for pk in perms(&ksub) { for pt in perms(&tsub) { for dup in [false, true] { for u_first in [false, true] {
                                    let mut b: Vec<String> = head.iter().map(|s| s.to_string()).collect();
                                    b.extend(pv.iter().map(|s| s.to_string()));
                                    if dup && !pv.is_empty() { b.push(pv[0].to_string()); }
                                    let mut ub: Vec<String> = vec![];
                                    if !pa.is_empty() || !pk.is_empty() { ub.push("u".into()); ub.extend(pa.iter().map(|s| s.to_string())); if dup && !pa.is_empty() { ub.push(pa[0].to_string()); } for k in &pk { ub.extend(k.iter().map(|s| s.to_string())); } }
                                    let mut tb: Vec<String> = vec![];
                                    if tl.is_some() || !pt.is_empty() { tb.push("t".into()); if let Some(t) = &tl { tb.extend(t.iter().map(|s| s.to_string())); } for k in &pt { tb.extend(k.iter().map(|s| s.to_string())); } }
                                    if u_first { b.extend(ub.clone()); b.extend(tb.clone()); } else { b.extend(tb.clone()); b.extend(ub.clone()); }
                                    b.extend(xblock.clone());
                                    for (mask, sep) in [(0u32, '-'), (0x1ffff, '_'), (0x0a5a5, '-'), (0x15a5a, '_')] {
                                        let sb = mask_case(&join(&b, sep), mask);
                                        if let Some(d) = inv_pair(&sa, &sb) { return Some((format!("{}\n{}", sa, sb).into_bytes(), d)); }
                                    }
                                }}}}}}
                            }
                        }
                    }
                }
            }
        }
    }
    None
}

// ------------------------------------------------------------------------------------------------ mut (C10)
#[derive(Clone, PartialEq, Debug)]
struct Model {
    variants: BTreeSet<String>,
    attrs: BTreeSet<String>,
    kw: BTreeMap<String, Vec<String>>,
    tlang: Option<String>,
    tf: BTreeMap<String, Vec<String>>,
    tags: Vec<String>, // sorted multiset
}
fn alnum(s: &str, lo: usize, hi: usize) -> bool { s.len() >= lo && s.len() <= hi && s.bytes().all(|c| c.is_ascii_alphanumeric()) }
fn ukey(s: &str) -> bool { let b = s.as_bytes(); b.len() == 2 && b[0].is_ascii_alphanumeric() && b[1].is_ascii_alphabetic() }
fn tkey(s: &str) -> bool { let b = s.as_bytes(); b.len() == 2 && b[0].is_ascii_alphabetic() && b[1].is_ascii_digit() }
fn norm_vals(vs: &[&str]) -> Option<Vec<String>> {
    if !vs.iter().all(|v| alnum(v, 3, 8)) { return None; }
    Some(vs.iter().map(|v| v.to_ascii_lowercase()).filter(|v| v != "true").collect())
}
#[derive(Clone, Debug)]
enum Op {
    SetKw(&'static str, &'static [&'static str]), RmKw(&'static str), ClrKw, SetAttr(&'static str), RmAttr(&'static str), ClrAttr,
    SetTf(&'static str, &'static [&'static str]), RmTf(&'static str), ClrTf, SetTlang(&'static str), ClrTlang,
    AddTag(&'static str), RmTag(&'static str), ClrTags, SetVars(&'static [&'static str]), ClrVars,
}
fn ops() -> Vec<Op> {
    use Op::*;
    vec![
        SetKw("ca", &["buddhist"]), SetKw("CA", &["Islamic", "true"]), SetKw("nu", &[]), SetKw("ca", &["islamic", "b@d"]), SetKw("ca", &["ab"]), SetKw("c", &["abc"]), SetKw("1a", &["abc"]), SetKw("a1", &["abc"]), SetKw("ca", &["toolongvalue"]),
        RmKw("ca"), RmKw("NU"), RmKw("!!"), ClrKw,
        SetAttr("foo"), SetAttr("BAR"), SetAttr("fo"), SetAttr("x!y"), SetAttr("aaa"), RmAttr("foo"), RmAttr("Bar"), RmAttr("f"), ClrAttr,
        SetTf("h0", &["hybrid"]), SetTf("H0", &["Hybrid", "b@d"]), SetTf("k0", &["dvorak", "zz"]), SetTf("m0", &["true", "names"]), SetTf("ca", &["abc"]), SetTf("k0", &[]),
        RmTf("h0"), RmTf("K0"), RmTf("h"), ClrTf, SetTlang("es-AR"), SetTlang("und-Latn-fonipa"), ClrTlang,
        AddTag("priv"), AddTag("A1"), AddTag("a"), AddTag("toolongtag"), AddTag(""), AddTag("b-c"), AddTag("priv"), RmTag("priv"), RmTag("A"), RmTag("zz!"), ClrTags,
        SetVars(&[]), SetVars(&["macos"]), SetVars(&["valencia", "macos", "valencia"]), SetVars(&["1996", "macos"]), ClrVars,
    ]
}
fn model_of(l: &Locale) -> Model {
    // read the start state through the getters (the getters themselves are then checked against later mutations)
    Model {
        variants: l.id.variants().map(|v| v.as_str().to_string()).collect(),
        attrs: l.extensions.unicode.attributes().map(|s| s.to_string()).collect(),
        kw: l.extensions.unicode.keyword_keys().map(|k| (k.to_string(), l.extensions.unicode.keyword(k).unwrap().map(|s| s.to_string()).collect())).collect(),
        tlang: l.extensions.transform.tlang().map(|t| t.to_string()),
        tf: l.extensions.transform.tfield_keys().map(|k| (k.to_string(), l.extensions.transform.tfield(k).unwrap().map(|s| s.to_string()).collect())).collect(),
        tags: l.extensions.private.tags().map(|s| s.to_string()).collect(),
    }
}
/// applies op to both; returns Some(description) when the return values disagree
fn apply(l: &mut Locale, m: &mut Model, op: &Op) -> Option<String> {
    use Op::*;
    let (got, want): (String, String) = match op {
        SetKw(k, vs) => {
            let want = if ukey(k) { norm_vals(vs).map(|v| { m.kw.insert(k.to_ascii_lowercase(), v); }) } else { None };
            (format!("{:?}", l.extensions.unicode.set_keyword(*k, vs).is_ok()), format!("{:?}", want.is_some()))
        }
        RmKw(k) => { let want = if ukey(k) { Some(m.kw.remove(&k.to_ascii_lowercase()).is_some()) } else { None }; (format!("{:?}", l.extensions.unicode.remove_keyword(*k).ok()), format!("{:?}", want)) }
        ClrKw => { m.kw.clear(); l.extensions.unicode.clear_keywords(); ("".into(), "".into()) }
        SetAttr(a) => { let ok = alnum(a, 3, 8); if ok { m.attrs.insert(a.to_ascii_lowercase()); } (format!("{:?}", l.extensions.unicode.set_attribute(*a).is_ok()), format!("{:?}", ok)) }
        RmAttr(a) => { let want = if alnum(a, 3, 8) { Some(m.attrs.remove(&a.to_ascii_lowercase())) } else { None }; (format!("{:?}", l.extensions.unicode.remove_attribute(*a).ok()), format!("{:?}", want)) }
        ClrAttr => { m.attrs.clear(); l.extensions.unicode.clear_attributes(); ("".into(), "".into()) }
        SetTf(k, vs) => {
            let want = if tkey(k) { norm_vals(vs).map(|v| { m.tf.insert(k.to_ascii_lowercase(), v); }) } else { None };
            (format!("{:?}", l.extensions.transform.set_tfield(*k, vs).is_ok()), format!("{:?}", want.is_some()))
        }
        RmTf(k) => { let want = if tkey(k) { Some(m.tf.remove(&k.to_ascii_lowercase()).is_some()) } else { None }; (format!("{:?}", l.extensions.transform.remove_tfield(*k).ok()), format!("{:?}", want)) }
        ClrTf => { m.tf.clear(); l.extensions.transform.clear_tfields(); ("".into(), "".into()) }
        SetTlang(t) => { let li: LanguageIdentifier = t.parse().unwrap(); m.tlang = Some(li.to_string()); (format!("{:?}", l.extensions.transform.set_tlang(li).is_ok()), "true".into()) }
        ClrTlang => { m.tlang = None; l.extensions.transform.clear_tlang(); ("".into(), "".into()) }
        AddTag(t) => { let ok = alnum(t, 1, 8); if ok { m.tags.push(t.to_ascii_lowercase()); m.tags.sort(); } (format!("{:?}", l.extensions.private.add_tag(*t).is_ok()), format!("{:?}", ok)) }
        RmTag(t) => {
            let want = if alnum(t, 1, 8) { let x = t.to_ascii_lowercase(); Some(match m.tags.iter().position(|y| *y == x) { Some(p) => { m.tags.remove(p); true } None => false }) } else { None };
            (format!("{:?}", l.extensions.private.remove_tag(*t).ok()), format!("{:?}", want))
        }
        ClrTags => { m.tags.clear(); l.extensions.private.clear_tags(); ("".into(), "".into()) }
        SetVars(vs) => { let v: Vec<Variant> = vs.iter().map(|s| s.parse().unwrap()).collect(); l.id.set_variants(&v); m.variants = vs.iter().map(|s| s.to_string()).collect(); ("".into(), "".into()) }
        ClrVars => { l.id.clear_variants(); m.variants.clear(); ("".into(), "".into()) }
    };
    if got != want { Some(format!("{:?} returned {} but the model says {}", op, got, want)) } else { None }
}
fn model_string(id_head: &str, m: &Model) -> String {
    let mut s = id_head.to_string();
    for v in &m.variants { s.push('-'); s.push_str(v); }
    if m.tlang.is_some() || !m.tf.is_empty() {
        s.push_str("-t");
        if let Some(t) = &m.tlang { s.push('-'); s.push_str(t); }
        for (k, vs) in &m.tf { s.push('-'); s.push_str(k); for v in vs { s.push('-'); s.push_str(v); } }
    }
    if !m.attrs.is_empty() || !m.kw.is_empty() {
        s.push_str("-u");
        for a in &m.attrs { s.push('-'); s.push_str(a); }
        for (k, vs) in &m.kw { s.push('-'); s.push_str(k); for v in vs { s.push('-'); s.push_str(v); } }
    }
    if !m.tags.is_empty() { s.push_str("-x"); for t in &m.tags { s.push('-'); s.push_str(t); } }
    s
}
fn observe(l: &Locale, m: &Model, id_head: &str) -> Option<String> {
    let u = &l.extensions.unicode; let t = &l.extensions.transform; let x = &l.extensions.private;
    let attrs: Vec<String> = u.attributes().map(|s| s.to_string()).collect();
    if attrs != m.attrs.iter().cloned().collect::<Vec<_>>() { return Some(format!("attributes() = {:?}, model {:?}", attrs, m.attrs)); }
    for a in ["foo", "bar", "aaa", "FOO", "Bar"] { if u.has_attribute(a).ok() != Some(m.attrs.contains(&a.to_ascii_lowercase())) { return Some(format!("has_attribute({}) disagrees with the model {:?}", a, m.attrs)); } }
    if u.has_attribute("fo").is_ok() || u.has_attribute("x!y").is_ok() { return Some("has_attribute accepts a malformed attribute".into()); }
    let keys: Vec<String> = u.keyword_keys().map(|s| s.to_string()).collect();
    if keys != m.kw.keys().cloned().collect::<Vec<_>>() { return Some(format!("keyword_keys() = {:?}, model {:?}", keys, m.kw)); }
    for k in ["ca", "nu", "1a", "CA", "Nu"] {
        let got: Vec<String> = u.keyword(k).unwrap().map(|s| s.to_string()).collect();
        if got != m.kw.get(&k.to_ascii_lowercase()).cloned().unwrap_or_default() { return Some(format!("keyword({}) = {:?}, model {:?}", k, got, m.kw.get(&k.to_ascii_lowercase()))); }
    }
    if u.keyword("c").is_ok() || u.keyword("a1").is_ok() { return Some("keyword() accepts a malformed key".into()); }
    if u.is_empty() != (m.attrs.is_empty() && m.kw.is_empty()) { return Some("unicode.is_empty() disagrees with the model".into()); }
    let tk: Vec<String> = t.tfield_keys().map(|s| s.to_string()).collect();
    if tk != m.tf.keys().cloned().collect::<Vec<_>>() { return Some(format!("tfield_keys() = {:?}, model {:?}", tk, m.tf)); }
    for k in ["h0", "k0", "m0", "H0", "K0"] {
        let got: Vec<String> = t.tfield(k).unwrap().map(|s| s.to_string()).collect();
        if got != m.tf.get(&k.to_ascii_lowercase()).cloned().unwrap_or_default() { return Some(format!("tfield({}) = {:?}, model {:?}", k, got, m.tf.get(&k.to_ascii_lowercase()))); }
    }
    if t.tfield("ca").is_ok() || t.tfield("h").is_ok() { return Some("tfield() accepts a malformed key".into()); }
    if t.tlang().map(|x| x.to_string()) != m.tlang { return Some(format!("tlang() = {:?}, model {:?}", t.tlang().map(|x| x.to_string()), m.tlang)); }
    if t.is_empty() != (m.tlang.is_none() && m.tf.is_empty()) { return Some("transform.is_empty() disagrees with the model".into()); }
    let tags: Vec<String> = x.tags().map(|s| s.to_string()).collect();
    if tags != m.tags { return Some(format!("tags() = {:?}, model {:?}", tags, m.tags)); }
    for g in ["priv", "a1", "a", "PRIV", "A1"] { if x.has_tag(g).ok() != Some(m.tags.iter().any(|y| *y == g.to_ascii_lowercase())) { return Some(format!("has_tag({}) disagrees with the model {:?}", g, m.tags)); } }
    if x.has_tag("toolongtag").is_ok() || x.has_tag("").is_ok() { return Some("has_tag accepts a malformed tag".into()); }
    if x.is_empty() != m.tags.is_empty() { return Some("private.is_empty() disagrees with the model".into()); }
    if l.extensions.is_empty() != (m.attrs.is_empty() && m.kw.is_empty() && m.tlang.is_none() && m.tf.is_empty() && m.tags.is_empty()) { return Some("extensions.is_empty() disagrees with the model".into()); }
    let vars: Vec<String> = l.id.variants().map(|v| v.as_str().to_string()).collect();
    if vars != m.variants.iter().cloned().collect::<Vec<_>>() { return Some(format!("variants() = {:?}, model {:?}", vars, m.variants)); }
    for v in ["macos", "nedis"] { if l.id.has_variant(v.parse().unwrap()) != m.variants.contains(v) { return Some(format!("has_variant({}) disagrees with the model", v)); } }
    let want = model_string(id_head, m);
    let s = l.to_string();
    if s != want { return Some(format!("to_string() = \"{}\", the model serialises to \"{}\"", s, want)); }
    match Locale::from_bytes(s.as_bytes()) {
        Ok(l2) => if l2 != *l { return Some(format!("to_string() = \"{}\" re-parses to a value that is != the mutated value (two representations of one logical value)", s)); },
        Err(e) => return Some(format!("to_string() = \"{}\" does not re-parse: {:?}", s, e)),
    }
    None
}
const STARTS: [(&str, &str); 3] = [("en", "en"), ("en-US-macos-u-foo-ca-buddhist-t-es-ar-k0-colemak-x-priv", "en-US"), ("und-Latn-t-h0-hybrid", "und-Latn")];
pub fn mut_run(start: usize, seq: &[usize]) -> Option<String> {
    let all = ops();
    let (src, head) = STARTS[start];
    let mut l = Locale::from_bytes(src.as_bytes()).unwrap();
    let mut m = model_of(&l);
    if let Some(d) = observe(&l, &m, head) { return Some(format!("start \"{}\": {}", src, d)); }
    for (n, i) in seq.iter().enumerate() {
        let before = l.clone();
        if let Some(d) = apply(&mut l, &mut m, &all[*i]) { return Some(format!("start \"{}\", after {:?}: {}", src, &seq[..n].iter().map(|j| format!("{:?}", all[*j])).collect::<Vec<_>>(), d)); }
        let _ = before;
        if let Some(d) = observe(&l, &m, head) {
            return Some(format!("start \"{}\", after {:?}: {}", src, seq[..=n].iter().map(|j| format!("{:?}", all[*j])).collect::<Vec<_>>(), d));
        }
    }
    None
}
/// bound: 3 start values x every sequence of <= 3 of the operations in ops()
pub fn mut_search() -> Option<(Vec<u8>, String)> {
    let n = ops().len();
    // shortest sequences first, so that a reported history is minimal in length
    for s in 0..STARTS.len() { for i in 0..n { if let Some(d) = mut_run(s, &[i]) { return Some((format!("{}:{}", s, i).into_bytes(), d)); } } }
    for s in 0..STARTS.len() { for i in 0..n { for j in 0..n { if let Some(d) = mut_run(s, &[i, j]) { return Some((format!("{}:{},{}", s, i, j).into_bytes(), d)); } } } }
    for s in 0..STARTS.len() { for i in 0..n { for j in 0..n { for k in 0..n {
        if let Some(d) = mut_run(s, &[i, j, k]) { return Some((format!("{}:{},{},{}", s, i, j, k).into_bytes(), d)); }
    } } } }
    None
}
pub fn mut_replay(token: &[u8]) -> Option<String> {
    let t = String::from_utf8_lossy(token).to_string();
    let (s, rest) = t.split_once(':')?;
    let seq: Vec<usize> = rest.split(',').filter(|x| !x.is_empty()).map(|x| x.parse().unwrap()).collect();
    mut_run(s.parse().ok()?, &seq)
}

// ------------------------------------------------------------------------------------------------ fromparts (C17)
pub fn fromparts_check(list: &[&str]) -> Option<String> {
    let vs: Vec<Variant> = list.iter().map(|s| s.parse().unwrap()).collect();
    for (l, s, r) in [("en", None, Some("US")), ("und", Some("Latn"), None)] {
        let lang: Language = l.parse().unwrap();
        let script: Option<Script> = s.map(|x: &str| x.parse().unwrap());
        let region: Option<Region> = r.map(|x: &str| x.parse().unwrap());
        let built = LanguageIdentifier::from_parts(lang, script, region, &vs);
        let mut joined = l.to_string();
        if let Some(x) = s { joined.push('-'); joined.push_str(x); }
        if let Some(x) = r { joined.push('-'); joined.push_str(x); }
        for v in list { joined.push('-'); joined.push_str(v); }
        let parsed: LanguageIdentifier = joined.parse().unwrap();
        if built != parsed || built.to_string() != parsed.to_string() {
            return Some(format!("from_parts({}, {:?}, {:?}, {:?}) = \"{}\" but parsing \"{}\" gives \"{}\" (or the two values are !=)", l, s, r, list, built, joined, parsed));
        }
        let (a, b, c, d) = built.clone().into_parts();
        if LanguageIdentifier::from_parts(a, b, c, &d) != built { return Some(format!("from_parts(into_parts(x)) != x for x = \"{}\"", built)); }
        let loc = Locale::from_parts(lang, script, region, &vs, None);
        let lp: Locale = joined.parse().unwrap();
        if loc != lp { return Some(format!("Locale::from_parts(.., {:?}, None) != parsing \"{}\"", list, joined)); }
        for ext in ["", "-x-priv", "-x-b-a", "-u-foo", "-u-ca-buddhist", "-t-es-ar", "-t-h0-hybrid", "-u-foo-ca-buddhist-t-es-ar-h0-hybrid-x-priv"] {
            let with_ext: Locale = format!("{}{}", joined, ext).parse().unwrap();
            let (a, b, c, d, e) = with_ext.clone().into_parts();
            let back = Locale::from_parts(a, b, c, &d, Some(e.parse().unwrap()));
            if back != with_ext { return Some(format!("Locale::from_parts(into_parts(x)) != x for x = \"{}\" (extension string returned by into_parts: \"{}\")", with_ext, e)); }
        }
    }
    None
}
/// bound: every variant list of length <= 3 over {macos, valencia, 1996} (any order, duplicates), two (language, script, region) heads
pub fn fromparts_search() -> Option<(Vec<u8>, String)> {
    let a = ["macos", "valencia", "1996"];
    for n in 0..=3usize {
        let mut idx = vec![0usize; n];
        loop {
            let list: Vec<&str> = idx.iter().map(|i| a[*i]).collect();
            if let Some(d) = fromparts_check(&list) { return Some((list.join(",").into_bytes(), d)); }
            let mut p = 0;
            while p < n { idx[p] += 1; if idx[p] < a.len() { break; } idx[p] = 0; p += 1; }
            if p == n { break; }
        }
    }
    None
}
pub fn fromparts_replay(token: &[u8]) -> Option<String> {
    let t = String::from_utf8_lossy(token).to_string();
    let list: Vec<&str> = t.split(',').filter(|x| !x.is_empty()).collect();
    fromparts_check(&list)
}
pub fn inv_replay(token: &[u8]) -> Option<String> {
    let t = String::from_utf8_lossy(token).to_string();
    let (a, b) = t.split_once('\n')?;
    inv_pair(a, b)
}
pub fn _unused() { let _ = hex(b""); }

// ------------------------------------------------------------------------------------------------ matches (C11)
fn mk_ids() -> Vec<String> {
    let mut out = vec![];
    for l in ["und", "en", "fr"] { for s in ["", "-Latn", "-Cyrl"] { for r in ["", "-US", "-419"] { for v in ["", "-macos", "-macos-valencia", "-1996"] {
        out.push(format!("{}{}{}{}", l, s, r, v));
    }}}}
    out
}
fn field_match<T: PartialEq>(a: &Option<T>, b: &Option<T>, ra: bool, rb: bool) -> bool { (ra && a.is_none()) || (rb && b.is_none()) || a == b }
pub fn matches_check(a: &str, b: &str, ea: &str, eb: &str, ra: bool, rb: bool) -> Option<String> {
    let (x, y): (LanguageIdentifier, LanguageIdentifier) = (a.parse().unwrap(), b.parse().unwrap());
    let lang = |l: &LanguageIdentifier| if l.language.is_empty() { None } else { Some(l.language) };
    let vars = |l: &LanguageIdentifier| { let v: Vec<Variant> = l.variants().cloned().collect(); if v.is_empty() { None } else { Some(v) } };
    let want = field_match(&lang(&x), &lang(&y), ra, rb) && field_match(&x.script, &y.script, ra, rb)
        && field_match(&x.region, &y.region, ra, rb) && field_match(&vars(&x), &vars(&y), ra, rb);
    if x.matches(&y, ra, rb) != want { return Some(format!("\"{}\".matches(\"{}\", {}, {}) = {}, the wildcard formula gives {}", a, b, ra, rb, !want, want)); }
    let (lx, ly): (Locale, Locale) = (format!("{}{}", a, ea).parse().unwrap(), format!("{}{}", b, eb).parse().unwrap());
    let lwant = if !lx.extensions.private.is_empty() || !ly.extensions.private.is_empty() { false } else { want };
    if lx.matches(&ly, ra, rb) != lwant { return Some(format!("Locale \"{}\".matches(\"{}\", {}, {}) = {}, expected {}", lx, ly, ra, rb, !lwant, lwant)); }
    if x.matches(&ly.id, ra, rb) != want { return Some(format!("LanguageIdentifier \"{}\" matched against the id of Locale \"{}\" disagrees with the formula", a, ly)); }
    // a LanguageIdentifier can be matched against a Locale directly (AsRef<LanguageIdentifier> for Locale is its id)
    if x.matches(&ly, ra, rb) != want { return Some(format!("LanguageIdentifier \"{}\".matches(&Locale \"{}\", {}, {}) = {}, the formula on its id gives {}", a, ly, ra, rb, !want, want)); }
    let as_id: &LanguageIdentifier = ly.as_ref();
    if *as_id != ly.id { return Some(format!("AsRef<LanguageIdentifier> for Locale \"{}\" is not its id", ly)); }
    None
}
/// bound: the product domain of C11's quantifier: (3 languages x 3 scripts x 3 regions x 4 variant lists) squared x 4 flag pairs x
/// 3 extension shapes per side (none, -u-ca-buddhist, -x-priv)
pub fn matches_search() -> Option<(Vec<u8>, String)> {
    let ids = mk_ids();
    let exts = ["", "-u-ca-buddhist", "-x-priv"];
    for a in &ids { for b in &ids { for ea in exts { for eb in exts { for f in 0..4 {
        let (ra, rb) = (f & 1 == 1, f & 2 == 2);
        if ea != "" && eb != "" && ea != eb && f != 3 { continue; }
        if let Some(d) = matches_check(a, b, ea, eb, ra, rb) { return Some((format!("{}|{}|{}|{}|{}", a, b, ea, eb, f).into_bytes(), d)); }
    }}}}}
    None
}
pub fn matches_replay(token: &[u8]) -> Option<String> {
    let t = String::from_utf8_lossy(token).to_string();
    let p: Vec<&str> = t.split('|').collect();
    if p.len() != 5 { return None; }
    let f: u8 = p[4].parse().ok()?;
    matches_check(p[0], p[1], p[2], p[3], f & 1 == 1, f & 2 == 2)
}

// ------------------------------------------------------------------------------------------------ serde (C19), through serde_json
pub fn serde_check(v: &[u8]) -> Option<String> {
    if v.starts_with(b"json:") {
        let j = String::from_utf8_lossy(&v[5..]).to_string();
        let r = std::panic::catch_unwind(|| serde_json::from_str::<LanguageIdentifier>(&j).is_err());
        return match r { Ok(true) => None, Ok(false) => Some(format!("the non-string JSON value {} deserialises to a LanguageIdentifier", j)),
                         Err(_) => Some(format!("deserialising the non-string JSON value {} PANICKED", j)) };
    }
    let s = match std::str::from_utf8(v) { Ok(s) => s, Err(_) => return None };
    let parsed = LanguageIdentifier::from_bytes(v).ok();
    let json = serde_json::to_string(&serde_json::Value::String(s.to_string())).unwrap();
    let de = std::panic::catch_unwind(|| serde_json::from_str::<LanguageIdentifier>(&json).ok());
    let de = match de { Ok(d) => d, Err(_) => return Some(format!("deserialising the JSON string {} PANICKED", json)) };
    if de != parsed { return Some(format!("deserialising {} gives {:?} but parsing \"{}\" gives {:?}", json, de.map(|l| l.to_string()), crate::esc(v), parsed.map(|l| l.to_string()))); }
    let de2 = serde_json::from_value::<LanguageIdentifier>(serde_json::Value::String(s.to_string())).ok();
    if de2 != parsed { return Some(format!("from_value(String(\"{}\")) gives {:?} but parsing gives {:?}", crate::esc(v), de2.map(|l| l.to_string()), parsed.map(|l| l.to_string()))); }
    if let Some(l) = parsed {
        let out = serde_json::to_string(&l).unwrap();
        if out != format!("\"{}\"", l) { return Some(format!("\"{}\" serialises to {} (canonical string: \"{}\")", crate::esc(v), out, l)); }
        if serde_json::from_str::<LanguageIdentifier>(&out).ok().as_ref() != Some(&l) { return Some(format!("serialised form {} does not deserialise to an equal value", out)); }
        if serde_json::to_value(&l).unwrap() != serde_json::Value::String(l.to_string()) { return Some(format!("to_value of \"{}\" is not the canonical string", l)); }
    }
    None
}
/// bound: the language-identifier token space (heads en/und/EN/e x <= 3 subtags of the boundary-class alphabet) as JSON strings (with
/// escapes where needed) and as serde_json::Value, plus 8 non-string JSON values
pub fn serde_search() -> Option<(Vec<u8>, String)> {
    for j in ["true", "1", "-1", "1.5", "null", "[\"en\"]", "{\"en\":1}", "[]"] {
        let tok = format!("json:{}", j).into_bytes();
        if let Some(d) = serde_check(&tok) { return Some((tok, d)); }
    }
    // long identifiers: 1..=12 variants (up to 120 bytes), well-formed and with one malformed subtag at the end
    let vs = ["1901", "1994", "1996", "fonipa", "fonxsamp", "valencia", "macos", "abcdefgh", "posix", "nedis", "rozaj", "biske"];
    for head in ["de", "de-Latn-DE", "und", "abcdefgh-Latn-419"] {
        let mut t = head.to_string();
        for v in vs {
            t.push('-'); t.push_str(v);
            for tail in ["", "-x", "-toolongsubtag"] {
                let tok = format!("{}{}", t, tail).into_bytes();
                if let Some(d) = serde_check(&tok) { return Some((tok, d)); }
            }
        }
    }
    let a = crate::reference::alphabet();
    let heads: Vec<&[u8]> = vec![b"en", b"und", b"EN", b"e", b"ca-ES", b"en\"x", b"en\\"];
    let mut buf: Vec<u8> = vec![];
    for h in &heads {
        for n in 0..=2usize {
            let mut idx = vec![0usize; n];
            loop {
                buf.clear();
                buf.extend(*h);
                for i in &idx { buf.push(b'-'); buf.extend(&a[*i]); }
                if let Some(d) = serde_check(&buf) { return Some((buf.clone(), d)); }
                let mut p = 0;
                while p < n { idx[p] += 1; if idx[p] < a.len() { break; } idx[p] = 0; p += 1; }
                if p == n { break; }
            }
        }
    }
    None
}

// ------------------------------------------------------------------------------------------------ likely (C07 / C08 wrappers)
pub fn likely_check(id: &str) -> Option<String> {
    let x: LanguageIdentifier = id.parse().ok()?;
    let vars: Vec<Variant> = x.variants().cloned().collect();
    let full = |l: &LanguageIdentifier| !l.language.is_empty() && l.script.is_some() && l.region.is_some();
    // maximize
    let mut m = x.clone();
    let changed = m.maximize();
    if changed != (m != x) { return Some(format!("maximize(\"{}\") returned {} but the value {} (now \"{}\")", id, changed, if m != x { "changed" } else { "did not change" }, m)); }
    if m.variants().cloned().collect::<Vec<_>>() != vars { return Some(format!("maximize(\"{}\") touched the variants: \"{}\"", id, m)); }
    if changed {
        if !full(&m) { return Some(format!("maximize(\"{}\") = \"{}\" leaves a subtag empty", id, m)); }
        if (!x.language.is_empty() && m.language != x.language) || (x.script.is_some() && m.script != x.script) || (x.region.is_some() && m.region != x.region) {
            return Some(format!("maximize(\"{}\") = \"{}\" replaced a subtag that was given", id, m));
        }
    }
    let mut mm = m.clone();
    if mm.maximize() || mm != m { return Some(format!("maximize is not idempotent on \"{}\": \"{}\" then \"{}\"", id, m, mm)); }
    // minimize
    let mut n = x.clone();
    let nchanged = n.minimize();
    if !nchanged && n != x { return Some(format!("minimize(\"{}\") returned false but changed the value to \"{}\"", id, n)); }
    if n.variants().cloned().collect::<Vec<_>>() != vars { return Some(format!("minimize(\"{}\") touched the variants: \"{}\"", id, n)); }
    if nchanged {
        let mut nm = n.clone(); nm.maximize();
        if nm != m { return Some(format!("minimize(\"{}\") = \"{}\" maximizes to \"{}\", the original to \"{}\"", id, n, nm, m)); }
        if n.language != m.language || (n.script.is_some() && n.script != m.script) || (n.region.is_some() && n.region != m.region) {
            return Some(format!("minimize(\"{}\") = \"{}\" uses a subtag the maximized original \"{}\" lacks", id, n, m));
        }
        let cnt = |l: &LanguageIdentifier| l.script.is_some() as u8 + l.region.is_some() as u8;
        if cnt(&n) > cnt(&x) { return Some(format!("minimize(\"{}\") = \"{}\" has more script/region subtags than the original", id, n)); }
    }
    let mut nn = n.clone(); nn.minimize();
    if nn != n { return Some(format!("minimize is not idempotent on \"{}\": \"{}\" then \"{}\"", id, n, nn)); }
    None
}
/// bound: 16 languages (incl. und and an unknown one) x 10 scripts (incl. none, unknown) x 11 regions (incl. none, unknown) x {no variant,
/// one variant}; laws of C07 / C08 that need no reference data (the F1 inputs of C08 are not among the laws checked here)
pub fn likely_search() -> Option<(Vec<u8>, String)> {
    for l in ["und", "en", "zh", "sr", "ar", "ku", "ms", "rif", "pa", "uz", "ff", "az", "kk", "mn", "he", "xx"] {
        for s in ["", "-Latn", "-Cyrl", "-Arab", "-Hant", "-Hans", "-Thai", "-Adlm", "-Mong", "-Xxxx"] {
            for r in ["", "-US", "-CN", "-TW", "-ME", "-AM", "-ID", "-PK", "-UK", "-419", "-XX"] {
                for v in ["", "-fonipa"] {
                    let id = format!("{}{}{}{}", l, s, r, v);
                    if let Some(d) = likely_check(&id) { return Some((id.into_bytes(), d)); }
                }
            }
        }
    }
    None
}

// ------------------------------------------------------------------------------------------------ super (C13)
pub fn super_check(v: &[u8]) -> Option<String> {
    if v.starts_with(b"raw:") { return super_raw().map(|(_, d)| d); }
    let li = LanguageIdentifier::from_bytes(v);
    let lo = std::panic::catch_unwind(|| Locale::from_bytes(v));
    let lo = match lo { Ok(x) => x, Err(_) => return Some(format!("Locale::from_bytes(b\"{}\") PANICKED", crate::esc(v))) };
    if let Ok(l) = &li {
        match &lo {
            Ok(loc) => {
                if loc.id != *l { return Some(format!("LanguageIdentifier parses b\"{}\" as \"{}\" but Locale's id is \"{}\"", crate::esc(v), l, loc.id)); }
                if !loc.extensions.is_empty() { return Some(format!("Locale parsed from the plain identifier b\"{}\" has extensions: \"{}\"", crate::esc(v), loc)); }
                if loc.to_string() != l.to_string() { return Some(format!("b\"{}\": Locale prints \"{}\", LanguageIdentifier prints \"{}\"", crate::esc(v), loc, l)); }
            }
            Err(e) => return Some(format!("LanguageIdentifier accepts b\"{}\" (\"{}\") but Locale rejects it: {:?}", crate::esc(v), l, e)),
        }
        // conversions: LanguageIdentifier -> Locale -> LanguageIdentifier is the identity
        let as_loc: Locale = l.clone().into();
        if !as_loc.extensions.is_empty() || as_loc.id != *l { return Some(format!("Locale::from(\"{}\") is not (id, no extensions)", l)); }
        let back: LanguageIdentifier = as_loc.into();
        if back != *l { return Some(format!("LanguageIdentifier -> Locale -> LanguageIdentifier is not the identity on \"{}\"", l)); }
    }
    if let Ok(loc) = &lo {
        // the id equals what LanguageIdentifier parses from the part before the first singleton subtag
        let t = crate::reference::split(v);
        let cut = t.iter().position(|s| s.len() == 1).unwrap_or(t.len());
        let mut prefix: Vec<u8> = vec![];
        for (i, s) in t[..cut].iter().enumerate() { if i > 0 { prefix.push(b'-'); } prefix.extend(*s); }
        if cut < t.len() {
            if let Ok(pl) = LanguageIdentifier::from_bytes(&prefix) {
                if pl != loc.id { return Some(format!("Locale b\"{}\" has id \"{}\" but the part before the first singleton parses to \"{}\"", crate::esc(v), loc.id, pl)); }
            }
        }
        let dropped: LanguageIdentifier = loc.clone().into();
        if dropped != loc.id { return Some(format!("Locale -> LanguageIdentifier of \"{}\" is not its id", loc)); }
    }
    None
}
/// bound: heads (en, und, EN, e, root, abcde, abcdef, abcdefg, abcdefgh, Qwerty) x <= 3 subtags of the boundary-class alphabet
/// the conversions are the identity on EVERY representable identifier, also one assembled with the (safe) raw constructor
fn super_raw() -> Option<(Vec<u8>, String)> {
    let mk = |variants: Option<Box<[Variant]>>| LanguageIdentifier::from_raw_parts_unchecked("en".parse().unwrap(), None, Some("US".parse().unwrap()), variants);
    let v = |s: &str| -> Variant { s.parse().unwrap() };
    let cases: Vec<(&str, LanguageIdentifier)> = vec![
        ("en-US with variants Some([])", mk(Some(Box::new([])))),
        ("en-US with variants None", mk(None)),
        ("en-US with variants Some([valencia, macos]) (unsorted)", mk(Some(Box::new([v("valencia"), v("macos")])))),
        ("en-US with variants Some([macos, macos]) (duplicate)", mk(Some(Box::new([v("macos"), v("macos")])))),
    ];
    for (what, l) in cases {
        let as_loc: Locale = l.clone().into();
        if !as_loc.extensions.is_empty() || as_loc.id != l { return Some((format!("raw:{}", what).into_bytes(), format!("Locale::from(id) does not carry the identical id for {} (from_raw_parts_unchecked)", what))); }
        let r: &LanguageIdentifier = as_loc.as_ref();
        if *r != l { return Some((format!("raw:{}", what).into_bytes(), format!("Locale::as_ref() is not the id for {}", what))); }
        let back: LanguageIdentifier = as_loc.into();
        if back != l { return Some((format!("raw:{}", what).into_bytes(), format!("LanguageIdentifier -> Locale -> LanguageIdentifier is not the identity on {}", what))); }
    }
    None
}
pub fn super_search() -> Option<(Vec<u8>, String)> {
    if let Some(f) = super_raw() { return Some(f); }
    let a = crate::reference::alphabet();
    let heads: Vec<&[u8]> = vec![b"en", b"und", b"EN", b"e", b"root", b"abcde", b"abcdef", b"abcdefg", b"abcdefgh", b"Qwerty", b"abcd", b"abcdefghi"];
    let mut buf: Vec<u8> = vec![];
    for h in &heads {
        for n in 0..=3usize {
            let mut idx = vec![0usize; n];
            loop {
                buf.clear();
                buf.extend(*h);
                for i in &idx { buf.push(b'-'); buf.extend(&a[*i]); }
                if let Some(d) = super_check(&buf) { return Some((buf.clone(), d)); }
                let mut p = 0;
                while p < n { idx[p] += 1; if idx[p] < a.len() { break; } idx[p] = 0; p += 1; }
                if p == n { break; }
            }
        }
    }
    None
}

// ------------------------------------------------------------------------------------------------ ord (C12)
fn hash64<T: std::hash::Hash>(x: &T) -> u64 { use std::hash::Hasher; let mut h = std::collections::hash_map::DefaultHasher::new(); x.hash(&mut h); h.finish() }
fn ord_pool() -> Vec<Locale> {
    let mut out: Vec<Locale> = vec![];
    let ids = ["und", "en", "en-US", "en-Latn", "en-Latn-US", "fr", "en-macos", "en-US-macos-valencia", "und-US", "und-Latn"];
    let us = ["", "-u-foo", "-u-bar-foo", "-u-ca-buddhist", "-u-ca-islamic-civil", "-u-ca-islamic-nu-civil", "-u-ca-islamic-civil-nu-latn", "-u-ca-islamic-nu-civil-latn",
              "-u-ca", "-u-ca-nu", "-u-foo-ca-buddhist", "-u-nu-latn"];
    let ts = ["", "-t-es", "-t-es-ar", "-t-h0-hybrid", "-t-es-h0-hybrid", "-t-h0-hybrid-m0-names", "-t-h0-hybrid-names-m0", "-t-h0"];
    let xs = ["", "-x-a", "-x-a-b", "-x-b"];
    for i in ids { for t in ts { for u in us { for x in xs {
        if let Ok(l) = format!("{}{}{}{}", i, t, u, x).parse::<Locale>() { out.push(l); }
    }}}}
    out
}
pub fn ord_pair(a: &Locale, b: &Locale) -> Option<String> {
    use std::cmp::Ordering::*;
    let (eq, c, sa, sb) = (a == b, a.cmp(b), a.to_string(), b.to_string());
    if eq != (sa == sb) { return Some(format!("\"{}\" == \"{}\" is {} but their canonical strings are {}", sa, sb, eq, if sa == sb { "equal" } else { "different" })); }
    if (c == Equal) != eq { return Some(format!("\"{}\".cmp(\"{}\") = {:?} but == is {}", sa, sb, c, eq)); }
    if b.cmp(a) != c.reverse() { return Some(format!("cmp is not antisymmetric on \"{}\" / \"{}\"", sa, sb)); }
    if a.partial_cmp(b) != Some(c) { return Some(format!("partial_cmp disagrees with cmp on \"{}\" / \"{}\"", sa, sb)); }
    if eq && hash64(a) != hash64(b) { return Some(format!("equal values \"{}\" hash differently", sa)); }
    // field by field: the identifier decides first
    let ic = a.id.cmp(&b.id);
    if ic != Equal && c != ic { return Some(format!("\"{}\" vs \"{}\": the ordering does not follow the identifiers' ordering", sa, sb)); }
    if (a.id == b.id) != (a.id.to_string() == b.id.to_string()) { return Some(format!("identifier == disagrees with canonical strings: \"{}\" / \"{}\"", a.id, b.id)); }
    None
}
/// the same canonical text reached through a different route of the safe API (route 0 = parsing)
pub const ORD_ROUTES: usize = 7;
pub fn ord_route(route: usize, s: &str) -> Option<Locale> {
    let mut l: Locale = s.parse().ok()?;
    match route {
        0 => {}
        1 => { let v: Vec<Variant> = l.id.variants().cloned().collect(); l.id.set_variants(&v); }          // re-set the same variants (none: the empty slice)
        2 => { if l.id.variants().len() == 0 { l.id.clear_variants(); } else { let mut v: Vec<Variant> = l.id.variants().cloned().collect(); v.reverse(); let d = v[0]; v.push(d); l.id.set_variants(&v); } }
        3 => { let (lang, script, region, variants, ext) = l.clone().into_parts();                              // decomposition round trip
               let mut v = variants.clone(); v.reverse(); if let Some(d) = v.first().cloned() { v.push(d); }
               l = Locale::from_parts(lang, script, region, &v, Some(ext.parse::<ExtensionsMap>().ok()?)); }
        4 => { l = s.to_uppercase().replace('-', "_").parse().ok()?; }                                          // other spelling
        5 => { l.extensions.unicode.set_attribute("zzz").ok()?; l.extensions.unicode.remove_attribute("ZZZ").ok()?;   // add and take away again
               l.extensions.unicode.set_keyword("zz", &["zzz"]).ok()?; l.extensions.unicode.remove_keyword("ZZ").ok()?;
               l.extensions.transform.set_tfield("z9", &["zzz"]).ok()?; l.extensions.transform.remove_tfield("Z9").ok()?;
               l.extensions.private.add_tag("zzz").ok()?; l.extensions.private.remove_tag("ZZZ").ok()?; }
        _ => { let li: LanguageIdentifier = l.clone().into(); let e = l.extensions.clone(); l = Locale::from(li); l.extensions = e; }    // through LanguageIdentifier
    }
    Some(l)
}
/// bound: all ordered pairs of a pool of up to ~3800 locales (10 identifiers x 8 -t- x 12 -u- x 4 -x- shapes, incl. keyword values split
/// differently across keys) are too many; the pool is thinned to every 3rd element (~1280 values, 1.6 M pairs) plus all pairs within one identifier;
/// plus, for every pool string, the value parsed from it against the value reached through each of 6 other API routes, and a sample of cross pairs
pub fn ord_search() -> Option<(Vec<u8>, String)> {
    let pool = ord_pool();
    let tok = |ra: usize, a: &Locale, rb: usize, b: &Locale| format!("{}:{}\n{}:{}", ra, a, rb, b).into_bytes();
    // other routes first (cheap): same text, different history
    for a in pool.iter() {
        let s = a.to_string();
        for r in 1..ORD_ROUTES {
            if let Some(b) = ord_route(r, &s) {
                if let Some(d) = ord_pair(a, &b) { return Some((tok(0, a, r, &b), format!("{} [second value reached through API route {}]", d, r))); }
                if let Some(d) = ord_pair(&b, a) { return Some((tok(r, &b, 0, a), format!("{} [first value reached through API route {}]", d, r))); }
            } else { return Some((tok(0, a, r, a), format!("API route {} fails on \"{}\"", r, s))); }
        }
    }
    let routed: Vec<(usize, Locale)> = pool.iter().step_by(29).enumerate().filter_map(|(i, l)| { let r = 1 + i % (ORD_ROUTES - 1); ord_route(r, &l.to_string()).map(|x| (r, x)) }).collect();
    for (ra, a) in &routed { for (rb, b) in &routed { if let Some(d) = ord_pair(a, b) { return Some((tok(*ra, a, *rb, b), format!("{} [API routes {} / {}]", d, ra, rb))); } } }
    let thin: Vec<&Locale> = pool.iter().step_by(3).collect();
    for a in &thin { for b in &thin { if let Some(d) = ord_pair(a, b) { return Some((tok(0, a, 0, b), d)); } } }
    for a in pool.iter().filter(|l| l.id.to_string() == "en") { for b in pool.iter().filter(|l| l.id.to_string() == "en") {
        if let Some(d) = ord_pair(a, b) { return Some((tok(0, a, 0, b), d)); }
    } }
    // transitivity on a sample of triples
    let small: Vec<&Locale> = pool.iter().step_by(37).collect();
    for a in &small { for b in &small { for c in &small {
        if a.cmp(b) != std::cmp::Ordering::Greater && b.cmp(c) != std::cmp::Ordering::Greater && a.cmp(c) == std::cmp::Ordering::Greater {
            return Some((tok(0, a, 0, c), format!("cmp is not transitive: \"{}\" <= \"{}\" <= \"{}\" but the first is greater than the last", a, b, c)));
        }
    } } }
    None
}
pub fn ord_replay(token: &[u8]) -> Option<String> {
    let t = String::from_utf8_lossy(token).to_string();
    let (a, b) = t.split_once('\n')?;
    let one = |x: &str| -> Option<Locale> { match x.split_once(':') { Some((r, s)) if r.len() == 1 && r.as_bytes()[0].is_ascii_digit() => ord_route(r.parse().ok()?, s), _ => x.parse().ok() } };
    ord_pair(&one(a)?, &one(b)?)
}
