//! vw — replays a witness on the REAL library (path dependency on /repo) and, after a deductive
//! failure that comes without a model (Verus), searches a bounded token space for a failing input.
//! It never decides a property: it only turns a failed obligation into a concrete input.
#![allow(dead_code)]
use std::str::FromStr;
use unic_langid_impl::subtags::{Language, Region, Script, Variant};
use unic_langid_impl::LanguageIdentifier;
use unic_locale_impl::Locale;

#[allow(dead_code, unused_parens)]
mod preds {
    include!("/verif/contracts/leaf_preds.rs");
}
mod reference;
mod bounded;
use preds::*;

fn unhex(s: &str) -> Vec<u8> {
    (0..s.len() / 2).map(|i| u8::from_str_radix(&s[2 * i..2 * i + 2], 16).unwrap()).collect()
}
fn esc(b: &[u8]) -> String {
    b.iter().map(|c| if *c >= 0x20 && *c < 0x7f && *c != b'"' && *c != b'\\' { (*c as char).to_string() } else { format!("\\x{:02x}", c) }).collect()
}

/// returns Some(description) when the real leaf function disagrees with its production on `v`
fn leaf_disagrees(ty: &str, v: &[u8]) -> Option<String> {
    let (real_ok, real_text, spec_ok, text_ok) = match ty {
        "language" => {
            let r = Language::from_bytes(v);
            let t = r.as_ref().ok().map(|x| x.as_str().to_string());
            // 'und' (any case) is the empty language: is_empty, == default(), integer form None
            let und_ok = r.as_ref().ok().map_or(true, |l| {
                let is_und = x_eq_lower(b"und", v);
                l.is_empty() == is_und && (*l == Language::default()) == is_und && Option::<u64>::from(*l).is_none() == is_und
            });
            (r.is_ok(), t.clone(), x_is_language(v), und_ok && t.map_or(true, |t| x_eq_lower(t.as_bytes(), v)))
        }
        "script" => {
            let r = Script::from_bytes(v);
            let t = r.as_ref().ok().map(|x| x.as_str().to_string());
            (r.is_ok(), t.clone(), x_is_script(v), t.map_or(true, |t| x_eq_title(t.as_bytes(), v)))
        }
        "region" => {
            let r = Region::from_bytes(v);
            let t = r.as_ref().ok().map(|x| x.as_str().to_string());
            (r.is_ok(), t.clone(), x_is_region(v), t.map_or(true, |t| x_eq_upper(t.as_bytes(), v)))
        }
        "variant" => {
            let r = Variant::from_bytes(v);
            let t = r.as_ref().ok().map(|x| x.as_str().to_string());
            (r.is_ok(), t.clone(), x_is_variant(v), t.map_or(true, |t| x_eq_lower(t.as_bytes(), v)))
        }
        _ => panic!("unknown leaf type"),
    };
    if real_ok != spec_ok || !text_ok {
        Some(format!(
            "{}::from_bytes(b\"{}\"): library says {} (text {:?}), production says {}; or the stored value / its und-ness differs from the normalised input",
            ty, esc(v), if real_ok { "Ok" } else { "Err" }, real_text, if spec_ok { "well-formed" } else { "ill-formed" }
        ))
    } else {
        None
    }
}

fn main() {
    let args: Vec<String> = std::env::args().collect();
    let cmd = args.get(1).map(|s| s.as_str()).unwrap_or("");
    match cmd {
        "leaf" => {
            let v = unhex(&args[3]);
            match leaf_disagrees(&args[2], &v) {
                Some(d) => { println!("DISAGREE {}", d); std::process::exit(1); }
                None => println!("AGREE {}::from_bytes(b\"{}\")", args[2], esc(&v)),
            }
        }
        "lid" => {
            let v = unhex(&args[2]);
            match reference::lid_disagrees(&v) {
                Some(d) => { println!("DISAGREE {}", d); std::process::exit(1); }
                None => println!("AGREE LanguageIdentifier::from_bytes(b\"{}\")", esc(&v)),
            }
        }
        "locale" => {
            let v = unhex(&args[2]);
            match reference::locale_disagrees(&v) {
                Some(d) => { println!("DISAGREE {}", d); std::process::exit(1); }
                None => println!("AGREE Locale::from_bytes(b\"{}\")", esc(&v)),
            }
        }
        "show" => {
            // show what the real library does with a locale string (panics are caught and reported)
            let v = unhex(&args[2]);
            let r = std::panic::catch_unwind(|| Locale::from_bytes(&v).map(|l| l.to_string()));
            match r {
                Ok(Ok(s)) => println!("Locale::from_bytes(b\"{}\") = Ok(\"{}\")", esc(&v), s),
                Ok(Err(e)) => println!("Locale::from_bytes(b\"{}\") = Err({:?})", esc(&v), e),
                Err(_) => println!("Locale::from_bytes(b\"{}\") PANICKED", esc(&v)),
            }
        }
        "rt" => { let v = unhex(&args[2]); match bounded::rt_check(&v) { Some(d) => { println!("DISAGREE {}", d); std::process::exit(1); } None => println!("AGREE round trip of b\"{}\"", esc(&v)) } }
        "inv" => { let v = unhex(&args[2]); match bounded::inv_replay(&v) { Some(d) => { println!("DISAGREE {}", d); std::process::exit(1); } None => println!("AGREE") } }
        "mut" => { let v = unhex(&args[2]); match bounded::mut_replay(&v) { Some(d) => { println!("DISAGREE {}", d); std::process::exit(1); } None => println!("AGREE") } }
        "matches" => { let v = unhex(&args[2]); match bounded::matches_replay(&v) { Some(d) => { println!("DISAGREE {}", d); std::process::exit(1); } None => println!("AGREE") } }
        "serde" => { let v = unhex(&args[2]); match bounded::serde_check(&v) { Some(d) => { println!("DISAGREE {}", d); std::process::exit(1); } None => println!("AGREE") } }
        "likely" => { let v = unhex(&args[2]); match bounded::likely_check(&String::from_utf8_lossy(&v)) { Some(d) => { println!("DISAGREE {}", d); std::process::exit(1); } None => println!("AGREE") } }
        "super" => { let v = unhex(&args[2]); match bounded::super_check(&v) { Some(d) => { println!("DISAGREE {}", d); std::process::exit(1); } None => println!("AGREE") } }
        "ord" => { let v = unhex(&args[2]); match bounded::ord_replay(&v) { Some(d) => { println!("DISAGREE {}", d); std::process::exit(1); } None => println!("AGREE") } }
        "fromparts" => { let v = unhex(&args[2]); match bounded::fromparts_replay(&v) { Some(d) => { println!("DISAGREE {}", d); std::process::exit(1); } None => println!("AGREE") } }
        "rawrt" => {
            // C17 / C12: two subtags of one type: integer round trip through the unchecked constructor, injectivity, == / Ord vs text
            let ty = args[2].as_str();
            let (a, b) = (unhex(&args[3]), unhex(&args[4]));
            let r = std::panic::catch_unwind(|| -> Option<String> {
                macro_rules! two { ($T:ty, $U:ty) => {{
                    let (x, y) = (<$T>::from_bytes(&a).ok()?, <$T>::from_bytes(&b).ok()?);
                    let (ux, uy): ($U, $U) = (x.into(), y.into());
                    let back = unsafe { <$T>::from_raw_unchecked(ux) };
                    if back != x || back.as_str() != x.as_str() { return Some(format!("{}: \"{}\" -> {} -> \"{}\" is not the identity", ty, x.as_str(), ux, back.as_str())); }
                    if (ux == uy) != (x == y) { return Some(format!("{}: \"{}\" and \"{}\" have integer forms {} and {}", ty, x.as_str(), y.as_str(), ux, uy)); }
                    if (x == y) != (x.as_str() == y.as_str()) || (x < y) != (x.as_str() < y.as_str()) { return Some(format!("{}: == / < of \"{}\" and \"{}\" disagree with their texts", ty, x.as_str(), y.as_str())); }
                    None
                }}; }
                match ty {
                    "script" => two!(Script, u32),
                    "region" => two!(Region, u32),
                    "variant" => two!(Variant, u64),
                    _ => {
                        let (x, y) = (Language::from_bytes(&a).ok()?, Language::from_bytes(&b).ok()?);
                        let (ux, uy): (Option<u64>, Option<u64>) = (x.into(), y.into());
                        if let Some(raw) = ux { let back = unsafe { Language::from_raw_unchecked(raw) }; if back != x || back.as_str() != x.as_str() { return Some(format!("language \"{}\" -> {} -> \"{}\" is not the identity", x.as_str(), raw, back.as_str())); } }
                        if (ux == uy) != (x == y) { return Some(format!("languages \"{}\" and \"{}\" have integer forms {:?} and {:?}", x.as_str(), y.as_str(), ux, uy)); }
                        if (x == y) != (x.as_str() == y.as_str()) { return Some(format!("languages \"{}\" and \"{}\": == disagrees with the texts", x.as_str(), y.as_str())); }
                        None
                    }
                }
            });
            match r {
                Err(_) => { println!("DISAGREE {} b\"{}\" / b\"{}\": the integer round trip PANICKED", ty, esc(&a), esc(&b)); std::process::exit(1); }
                Ok(Some(d)) => { println!("DISAGREE {}", d); std::process::exit(1); }
                Ok(None) => println!("AGREE {} b\"{}\" / b\"{}\"", ty, esc(&a), esc(&b)),
            }
        }
        "xleaf" => {
            // a leaf parser of the extension code, reached through the public API that calls it (panics are caught)
            use unic_locale_impl::extensions::{PrivateExtensionList, TransformExtensionList, UnicodeExtensionList};
            let kind = args[2].as_str();
            let v = unhex(&args[3]);
            let low: Vec<u8> = v.iter().map(|c| x_lower_b(*c)).collect();
            let lows = String::from_utf8_lossy(&low).to_string();
            let vv: &[u8] = &v;
            let res = std::panic::catch_unwind(|| -> (bool, bool, bool) {
                // (library accepted, production accepts, stored value is the normalised input)
                match kind {
                    "ukey" => { let mut u = UnicodeExtensionList::default(); let ok = u.set_keyword(vv, &[]).is_ok();
                        (ok, x_is_ukey(vv), !ok || u.keyword_keys().collect::<Vec<_>>() == vec![lows.as_str()]) }
                    "utype" => { let mut u = UnicodeExtensionList::default(); let ok = u.set_keyword(&b"ca"[..], &[vv]).is_ok();
                        let want: Vec<&str> = if lows == "true" { vec![] } else { vec![lows.as_str()] };
                        (ok, x_is_utype(vv), !ok || u.keyword("ca").unwrap().collect::<Vec<_>>() == want) }
                    "uattr" => { let mut u = UnicodeExtensionList::default(); let ok = u.set_attribute(vv).is_ok();
                        (ok, x_is_utype(vv), !ok || u.attributes().collect::<Vec<_>>() == vec![lows.as_str()]) }
                    "tkey" => { let mut t = TransformExtensionList::default(); let ok = t.set_tfield(vv, &[]).is_ok();
                        (ok, x_is_tkey(vv), !ok || t.tfield_keys().collect::<Vec<_>>() == vec![lows.as_str()]) }
                    "tvalue" => { let mut t = TransformExtensionList::default(); let ok = t.set_tfield(&b"h0"[..], &[vv]).is_ok();
                        let want: Vec<&str> = if lows == "true" { vec![] } else { vec![lows.as_str()] };
                        (ok, x_is_utype(vv), !ok || t.tfield("h0").unwrap().collect::<Vec<_>>() == want) }
                    _ => { let mut p = PrivateExtensionList::default(); let ok = p.add_tag(vv).is_ok();
                        (ok, x_is_private(vv), !ok || p.tags().collect::<Vec<_>>() == vec![lows.as_str()]) }
                }
            });
            match res {
                Err(_) => { println!("DISAGREE the {} argument b\"{}\" makes the library PANIC (C01: must return Ok or Err)", kind, esc(&v)); std::process::exit(1); }
                Ok((got, want, stored)) => if got != want || !stored {
                    println!("DISAGREE {} argument b\"{}\": library {}, production says {}, stored value normalised: {}", kind, esc(&v), if got { "accepts" } else { "rejects" }, if want { "well-formed" } else { "ill-formed" }, stored);
                    std::process::exit(1);
                } else { println!("AGREE {} b\"{}\"", kind, esc(&v)); }
            }
        }
        "lsr" => {
            // real maximize / minimize / character_direction on raw integer forms ("-" = absent); prints raw results
            let p64 = |s: &str| if s == "-" { None } else { s.parse::<u64>().ok() };
            let l = p64(&args[2]); let sc = p64(&args[3]).map(|x| x as u32); let r = p64(&args[4]).map(|x| x as u32);
            let mk = |l: Option<u64>, sc: Option<u32>, r: Option<u32>| LanguageIdentifier::from_raw_parts_unchecked(
                l.map_or(Language::default(), |v| unsafe { Language::from_raw_unchecked(v) }),
                sc.map(|v| unsafe { Script::from_raw_unchecked(v) }), r.map(|v| unsafe { Region::from_raw_unchecked(v) }), None);
            let raw = |li: &LanguageIdentifier| -> String {
                let a: Option<u64> = li.language.into(); let b: Option<u32> = li.script.map(|x| x.into()); let c: Option<u32> = li.region.map(|x| x.into());
                format!("{},{},{}", a.map_or("-".to_string(), |x| x.to_string()), b.map_or("-".to_string(), |x| x.to_string()), c.map_or("-".to_string(), |x| x.to_string()))
            };
            let x = mk(l, sc, r);
            let mut mx = x.clone(); let cmx = mx.maximize();
            let mut mn = x.clone(); let cmn = mn.minimize();
            let mut mxmx = mx.clone(); let cmxmx = mxmx.maximize();
            let mut mnmn = mn.clone(); let cmnmn = mnmn.minimize();
            let mut mnmx = mx.clone(); let cmnmx = mnmx.minimize();
            let mut mxmn = mn.clone(); let _ = mxmn.maximize();
            println!("x={} max={}:{} min={}:{} maxmax={}:{} minmin={}:{} minmax={}:{} maxmin={} dir={:?}", raw(&x), cmx, raw(&mx), cmn, raw(&mn), cmxmx, raw(&mxmx), cmnmn, raw(&mnmn), cmnmx, raw(&mnmx), raw(&mxmn), x.character_direction());
        }
        "dirrows" => {
            // closed obligation of C14 decided by execution: every row `l s r d lk` of the file (raw integer forms, 0 = absent; d = CLDR
            // characterOrder 0/1/2; lk = likely script CLDR gives, 0 = none, "-" = not a likely row): real character_direction() == d and,
            // for likely rows, the script of the real maximize(l, None, r) == lk
            let text = std::fs::read_to_string(&args[2]).expect("rows file");
            let mut n = 0usize;
            for line in text.lines() {
                let f: Vec<&str> = line.split_whitespace().collect();
                if f.len() < 5 { continue; }
                let l: u64 = f[0].parse().unwrap(); let sc: u32 = f[1].parse().unwrap(); let r: u32 = f[2].parse().unwrap(); let d: u8 = f[3].parse().unwrap();
                let mk = |l: u64, sc: u32, r: u32| LanguageIdentifier::from_raw_parts_unchecked(
                    if l == 0 { Language::default() } else { unsafe { Language::from_raw_unchecked(l) } },
                    if sc == 0 { None } else { Some(unsafe { Script::from_raw_unchecked(sc) }) }, if r == 0 { None } else { Some(unsafe { Region::from_raw_unchecked(r) }) }, None);
                let x = mk(l, sc, r);
                let got = match x.character_direction() { unic_langid_impl::CharacterDirection::LTR => 0u8, unic_langid_impl::CharacterDirection::RTL => 1, _ => 2 };
                let o = |v: u64| if v == 0 { "-".to_string() } else { v.to_string() };
                if got != d { println!("FOUND {} {} {} character_direction({}) = {} but CLDR characterOrder is {}", o(l), o(sc as u64), o(r as u64), x, got, d); std::process::exit(1); }
                if f[4] != "-" {
                    let lk: u32 = f[4].parse().unwrap();
                    let mut m = mk(l, 0, r); m.maximize();
                    let ms: u32 = m.script.map(|s| s.into()).unwrap_or(0);
                    if ms != lk { println!("FOUND {} - {} maximize({}) has script {:?}, CLDR's likely script has the integer form {}", o(l), o(r as u64), mk(l, 0, r), m.script, lk); std::process::exit(1); }
                }
                n += 1;
            }
            println!("NONE {} rows agree", n);
        }
        "search" => {
            let what = args[2].as_str();
            let seed: u64 = args.get(3).and_then(|s| s.parse().ok()).unwrap_or(0);
            match reference::search(what, seed) {
                Some((input, d)) => { println!("FOUND {} {}", input.iter().map(|b| format!("{:02x}", b)).collect::<String>(), d); std::process::exit(1); }
                None => println!("NONE no failing input in the bounded token space"),
            }
        }
        _ => { eprintln!("usage: vw leaf <type> <hex> | lid <hex> | locale <hex> | search <what> [seed]"); std::process::exit(2); }
    }
    let _ = (LanguageIdentifier::from_str("en"), Locale::from_str("en"));
}
