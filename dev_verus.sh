#!/bin/sh
# dev helper: assemble a crate and run verus on it (human-readable output).  usage: dev_verus.sh langid|locale|bridge
set -e
W=${VF_WORK:-/tmp/vfdev}; mkdir -p $W
which=$1; shift
python3 - "$which" "$W" <<'PY'
import sys, os
sys.path.insert(0,'/verif')
from vf import verus, common
which,W=sys.argv[1],sys.argv[2]
repo=os.environ.get('VERIF_REPO','/repo')
feats=tuple(x for x in os.environ.get('VF_FEATURES','').split(',') if x)
if which=='locale':
    txt,_,errs,_=verus.assemble('langid',repo,tuple(f for f in feats if f=='likelysubtags'))
    open(W+'/langid.rs','w').write(txt)
    ok,rlib,vir,r=verus.export_crate('langid',W,tuple(f for f in feats if f=='likelysubtags'))
    if not ok: print('EXPORT FAILED', r['err'][-2000:])
txt,_,errs,_=verus.assemble(which,repo,feats)
open('%s/%s.rs'%(W,which),'w').write(txt)
for e in errs: print('ASSEMBLE-ERROR',e)
PY
R=$(ls /verif/.build/tinydep/debug/deps/libtinystr-*.rlib)
cd $W
F=""
for f in $(echo "$VF_FEATURES" | tr ',' ' '); do F="$F --cfg 'feature=\"$f\"'"; done
if [ "$which" = langid ]; then
  eval verus langid.rs --crate-type=lib --crate-name unic_langid_impl --extern tinystr=$R -L dependency=/verif/.build/tinydep/debug/deps --multiple-errors 10 $F "$@"
else
  eval verus locale.rs --crate-type=lib --crate-name unic_locale_impl --extern tinystr=$R --extern unic_langid_impl=$W/libunic_langid_impl.rlib --import unic_langid_impl=$W/langid.vir -L dependency=/verif/.build/tinydep/debug/deps --multiple-errors 10 $F "$@"
fi
