#!/bin/sh
# dev helper: assemble a crate and run verus on it.  usage: dev_verus.sh langid|locale [extra verus args]
set -e
W=${VF_WORK:-/tmp/vfdev}; mkdir -p $W
which=$1; shift
python3 - "$which" "$W" <<'PY'
import sys
sys.path.insert(0,'/verif')
from vf.extract import Overlay, Assembler
which,W=sys.argv[1],sys.argv[2]
crate={'langid':'unic-langid-impl','locale':'unic-locale-impl'}[which]
ov=Overlay('/verif/contracts/verus/%s.overlay'%which)
a=Assembler('/repo/'+crate,ov)
txt=a.assemble('#![feature(allocator_api)]\n#![allow(unused_imports, dead_code, unused_variables, unused_mut, unused_parens, unused_braces)]\n')
open('%s/%s.rs'%(W,which),'w').write(txt)
for e in a.errors: print('ASSEMBLE-ERROR',e)
PY
R=$(ls /verif/.build/tinydep/debug/deps/libtinystr-*.rlib)
cd $W
if [ "$which" = langid ]; then
  verus langid.rs --crate-type=lib --crate-name unic_langid_impl --extern tinystr=$R -L dependency=/verif/.build/tinydep/debug/deps --multiple-errors 10 "$@"
else
  verus locale.rs --crate-type=lib --crate-name unic_locale_impl --extern tinystr=$R --extern unic_langid_impl=$W/libunic_langid_impl.rlib --import unic_langid_impl=$W/langid.vir -L dependency=/verif/.build/tinydep/debug/deps --multiple-errors 10 "$@"
fi
