#!/usr/bin/env python3
"""dev helper: tools/kdev.py <unit> <harness>... [--timeout N]  -> runs Kani harnesses of one unit on a copy of the repo, prints results"""
import sys, os, time, json
sys.path.insert(0, os.path.dirname(os.path.dirname(os.path.abspath(__file__))))
from vf import driver, common, kani
common.ensure_setup()
args = sys.argv[1:]
to = 900
if '--timeout' in args:
    i = args.index('--timeout'); to = int(args[i + 1]); del args[i:i + 2]
c = driver.Ctx('thorough', verbose=True)
unit = args[0]
hs = args[1:] or [h for h, _ in kani.list_harnesses(kani.harness_text(unit, ''))]
t0 = time.time()
res = c.kani_results(unit, hs, to)
for h, r in res.items():
    print(h, r['status'], r.get('time_s'), r.get('checks'), r.get('covers'), r.get('failed_checks', [])[:5])
    if r['status'] not in ('success', 'failed'):
        print((r.get('detail') or '')[-2500:])
print('wall %.1f' % (time.time() - t0))
