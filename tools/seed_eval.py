#!/usr/bin/env python3
"""tools/seed_eval.py confirm <agent_worktree> <seed_id>   -> confirms a seeded change in a fresh scratch worktree and stores it under seeded/<id>/
   tools/seed_eval.py run <seed_id> [props...]            -> applies seeded/<id>/patch.diff to /repo, runs the checks, undoes it, records outcome
"""
import json
import os
import shutil
import subprocess
import sys
import time

VERIF = os.path.dirname(os.path.dirname(os.path.abspath(__file__)))


def sh(cmd, cwd=None, env=None, timeout=3600):
    e = dict(os.environ)
    e['CARGO_NET_OFFLINE'] = 'true'
    if env:
        e.update(env)
    p = subprocess.run(cmd, shell=True, cwd=cwd, env=e, capture_output=True, text=True, timeout=timeout)
    return p.returncode, p.stdout + p.stderr


def confirm(agent_wt, sid):
    seed = os.path.join(agent_wt, '_seed')
    meta = json.load(open(os.path.join(seed, 'meta.json')))
    wt = '/tmp/seedchk'
    sh('git -C /repo worktree remove --force %s' % wt)
    rc, out = sh('git -C /repo worktree add -f %s HEAD' % wt)
    assert rc == 0, out
    env = {'CARGO_TARGET_DIR': '/tmp/seedchk-target'}
    log = []
    try:
        rc, out = sh('git apply %s' % os.path.join(seed, 'patch.diff'), cwd=wt)
        assert rc == 0, 'patch does not apply: ' + out
        rc, out = sh('cargo test --workspace --no-fail-fast --offline 2>&1 | grep -E "^test result|FAILED|panicked" ', cwd=wt, env=env)
        fails = [l for l in out.splitlines() if 'FAILED' in l or ('failed' in l and ' 0 failed' not in l)]
        log.append('with change: existing suite: %s' % ('FAILS ' + '; '.join(fails[:3]) if fails else 'passes'))
        ok_suite = not fails
        crate = meta.get('demo_crate', 'unic-locale-impl').strip('/')
        feats = meta.get('demo_features', '')
        demo_dst = os.path.join(wt, crate, 'tests', 'seed_demo.rs')
        shutil.copy(os.path.join(seed, 'demo.rs'), demo_dst)
        fl = ('--features ' + feats) if feats else ''
        rc1, out1 = sh('cargo test -p %s --test seed_demo %s --offline' % (crate, fl), cwd=wt, env=env)
        log.append('with change: demo %s' % ('FAILS (as required)' if rc1 != 0 else 'passes (NOT a valid seed)'))
        sh('git apply -R %s' % os.path.join(seed, 'patch.diff'), cwd=wt)
        rc2, out2 = sh('cargo test -p %s --test seed_demo %s --offline' % (crate, fl), cwd=wt, env=env)
        log.append('without change: demo %s' % ('passes (as required)' if rc2 == 0 else 'FAILS (NOT a valid seed): ' + out2[-500:]))
        good = ok_suite and rc1 != 0 and rc2 == 0
    finally:
        sh('git -C /repo worktree remove --force %s' % wt)
    print('\n'.join(log))
    if not good:
        print('REJECTED', sid)
        return 1
    dst = os.path.join(VERIF, 'seeded', sid)
    os.makedirs(dst, exist_ok=True)
    shutil.copy(os.path.join(seed, 'patch.diff'), dst)
    shutil.copy(os.path.join(seed, 'demo.rs'), dst)
    meta['confirmed'] = log
    meta['confirmed_at_repo_commit'] = sh('git -C /repo rev-parse --short HEAD')[1].strip()
    meta['what_i_ran'] = ['git worktree add /tmp/seedchk HEAD; git apply patch.diff', 'cargo test --workspace --no-fail-fast --offline (passes)',
                          'cargo test -p %s --test seed_demo (fails with the change, passes without)' % crate]
    json.dump(meta, open(os.path.join(dst, 'meta.json'), 'w'), indent=1)
    print('KEPT', sid, meta.get('summary'))
    return 0


def run(sid, props, in_place=False):
    """Default: apply the patch in a scratch worktree and point the checks at it (VERIF_REPO), so that /repo is not disturbed and
    several seeds can be evaluated in parallel; --in-place applies it to /repo itself and undoes it afterwards (the official way)."""
    dst = os.path.join(VERIF, 'seeded', sid)
    meta = json.load(open(os.path.join(dst, 'meta.json')))
    if not props:
        props = [meta['property']]
    env = {}
    if in_place:
        rc, out = sh('git -C /repo status --porcelain --untracked-files=no')
        assert out.strip() == '', '/repo is dirty: ' + out
        rc, out = sh('git -C /repo apply %s' % os.path.join(dst, 'patch.diff'))
        assert rc == 0, out
    else:
        wt = '/tmp/seedrun_%s' % sid
        sh('git -C /repo worktree remove --force %s' % wt)
        rc, out = sh('git -C /repo worktree add -f %s HEAD' % wt)
        assert rc == 0, out
        rc, out = sh('git apply %s' % os.path.join(dst, 'patch.diff'), cwd=wt)
        assert rc == 0, out
        env = {'VERIF_REPO': wt, 'VERIF_EVIDENCE_DIR': '/tmp/seedrun_%s_ev' % sid}
    results = {}
    try:
        for p in props:
            t0 = time.time()
            rc, out = sh('./check %s --tier quick' % p, cwd=VERIF, timeout=7200, env=env)
            lines = [l for l in out.splitlines() if l.startswith(('VIOLATION', 'UNDECIDED', 'KNOWN-FINDING', '  failed', '  replay')) or ' tier=' in l]
            results[p] = {'exit': rc, 'lines': lines[:12], 'wall_s': round(time.time() - t0, 1)}
            print(sid, p, 'exit', rc)
            for l in lines[:12]:
                print('   ', l[:300])
    finally:
        if in_place:
            sh('git -C /repo checkout -- .')
        else:
            sh('git -C /repo worktree remove --force %s' % wt)
            sh('rm -rf /tmp/seedrun_%s_ev' % sid)
    meta = json.load(open(os.path.join(dst, 'meta.json')))
    meta.setdefault('check_results', {}).update(results)
    json.dump(meta, open(os.path.join(dst, 'meta.json'), 'w'), indent=1)
    return 0


if __name__ == '__main__':
    if sys.argv[1] == 'confirm':
        sys.exit(confirm(sys.argv[2], sys.argv[3]))
    args = [a for a in sys.argv[2:] if a != '--in-place']
    sys.exit(run(args[0], args[1:], in_place='--in-place' in sys.argv))
