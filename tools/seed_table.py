#!/usr/bin/env python3
"""Prints the markdown table of seeded changes and the outcome of the checks on each (from seeded/*/meta.json)."""
import glob, json, os
V = os.path.dirname(os.path.dirname(os.path.abspath(__file__)))
import io, sys
_out = io.StringIO()
_p = print
def print(*a):
    _p(*a, file=_out)
print('| seed | property | change (needs) | outcome of `./check` on the changed tree |')
print('|---|---|---|---|')
for d in sorted(glob.glob(os.path.join(V, 'seeded', '*'))):
    m = json.load(open(os.path.join(d, 'meta.json')))
    res = []
    for p, r in sorted((m.get('check_results') or {}).items()):
        lines = r.get('lines', [])
        ob = [l.strip().replace('failed obligation: ', '') for l in lines if 'failed obligation' in l]
        if r['exit'] == 1:
            how = 'replayed on the real code' if any('DISAGREE' in l for l in lines) else 'no-failing-input-found'
            names = []
            for o in ob:
                n = o.split(':')[-1][:50]
                if n not in names:
                    names.append(n)
            res.append('%s: **VIOLATION** at %s (%s)' % (p, ', '.join('`%s`' % n for n in names[:4]) or 'the bounded stand-in (the deductive obligation of the restructured function was undecided)', how))
        elif r['exit'] == 2:
            res.append('%s: undecided (exit 2)' % p)
        else:
            res.append('%s: not detected (exit 0)' % p)
    summ = m['summary'].split('. ')[0][:150]
    print('| %s | %s | %s | %s |' % (os.path.basename(d), m['property'], summ.replace('|', '/'), '; '.join(res) or 'not run'))

txt = _out.getvalue()
if '--inject' in sys.argv:
    import re
    dp = os.path.join(V, 'DESIGN.md')
    d = open(dp).read()
    d = re.sub(r'<!-- seedtable -->.*?<!-- /seedtable -->', lambda m: '<!-- seedtable -->\n' + txt + '<!-- /seedtable -->', d, flags=re.S)
    open(dp, 'w').write(d)
else:
    sys.stdout.write(txt)
