// U-XLEAF (unicode.rs) — Kani harnesses on the real private leaf functions of the -u- extension.
// Injected as child module `verif_unicode_leaf` of extensions/unicode.rs in a scratch copy of /repo.
#![allow(dead_code, unused_imports)]
use super::*;

#[allow(dead_code, unused_parens)]
mod preds {
    //@PREDS@
}
use preds::*;

const N: usize = 16;
fn any_input(buf: &[u8; N]) -> &[u8] {
    let len: usize = kani::any();
    kani::assume(len <= N);
    &buf[..len]
}
const LONG: usize = 64;
fn any_overlong(buf: &[u8; LONG]) -> &[u8] {
    let len: usize = kani::any();
    kani::assume(len > N && len <= LONG);
    &buf[..len]
}

#[kani::proof]
#[kani::unwind(18)]
fn leaf_parse_key() {
    let buf: [u8; N] = kani::any();
    let v = any_input(&buf);
    match parse_key(v) {
        Ok(k) => {
            assert!(x_is_ukey(v));
            assert!(x_eq_lower(k.as_bytes(), v));
            assert!(x_is_ukey(k.as_bytes()));
            kani::cover!(true);
        }
        Err(e) => { assert!(!x_is_ukey(v)); assert!(e == ParserError::InvalidSubtag); }
    }
}

#[kani::proof]
#[kani::unwind(18)]
fn leaf_parse_type() {
    let buf: [u8; N] = kani::any();
    let v = any_input(&buf);
    match parse_type(v) {
        Ok(o) => {
            assert!(x_is_utype(v));
            let is_true = x_eq_lower(b"true", v);
            assert!(o.is_none() == is_true);
            if let Some(s) = o { assert!(x_eq_lower(s.as_bytes(), v)); assert!(x_is_utype(s.as_bytes())); }
            kani::cover!(is_true);
            kani::cover!(!is_true);
        }
        Err(e) => { assert!(!x_is_utype(v)); assert!(e == ParserError::InvalidSubtag); }
    }
}

#[kani::proof]
#[kani::unwind(18)]
fn leaf_parse_attribute() {
    let buf: [u8; N] = kani::any();
    let v = any_input(&buf);
    match parse_attribute(v) {
        Ok(s) => { assert!(x_is_utype(v)); assert!(x_eq_lower(s.as_bytes(), v)); kani::cover!(true); }
        Err(e) => { assert!(!x_is_utype(v)); assert!(e == ParserError::InvalidSubtag); }
    }
}

#[kani::proof]
#[kani::unwind(18)]
fn leaf_is_type_is_attribute() {
    let buf: [u8; N] = kani::any();
    let v = any_input(&buf);
    assert!(is_type(v) == x_is_utype(v));
    assert!(is_attribute(v) == x_is_utype(v));
}

#[kani::proof]
#[kani::unwind(66)]
fn leaf_unicode_overlong() {
    let buf: [u8; LONG] = kani::any();
    let v = any_overlong(&buf);
    assert!(parse_key(v) == Err(ParserError::InvalidSubtag));
    assert!(parse_type(v) == Err(ParserError::InvalidSubtag));
    assert!(parse_attribute(v) == Err(ParserError::InvalidSubtag));
    assert!(!is_type(v));
    assert!(!is_attribute(v));
}
