// U-XLEAF (transform.rs) — Kani harnesses on the real private leaf functions of the -t- extension.
#![allow(dead_code, unused_imports)]
use super::*;

#[allow(dead_code, unused_parens)]
mod preds {
    //@PREDS@
}
use preds::*;

const N: usize = 16;
fn any_input(buf: &[u8; N]) -> &[u8] {
    let len: usize = kani::any();
    kani::assume(len <= N);
    &buf[..len]
}
const LONG: usize = 64;
fn any_overlong(buf: &[u8; LONG]) -> &[u8] {
    let len: usize = kani::any();
    kani::assume(len > N && len <= LONG);
    &buf[..len]
}

#[kani::proof]
#[kani::unwind(18)]
fn leaf_parse_tkey() {
    let buf: [u8; N] = kani::any();
    let v = any_input(&buf);
    match parse_tkey(v) {
        Ok(k) => { assert!(x_is_tkey(v)); assert!(x_eq_lower(k.as_bytes(), v)); assert!(x_is_tkey(k.as_bytes())); kani::cover!(true); }
        Err(e) => { assert!(!x_is_tkey(v)); assert!(e == ParserError::InvalidSubtag); }
    }
}

#[kani::proof]
#[kani::unwind(18)]
fn leaf_parse_tvalue() {
    let buf: [u8; N] = kani::any();
    let v = any_input(&buf);
    match parse_tvalue(v) {
        Ok(o) => {
            assert!(x_is_utype(v));
            let is_true = x_eq_lower(b"true", v);
            assert!(o.is_none() == is_true);
            if let Some(s) = o { assert!(x_eq_lower(s.as_bytes(), v)); assert!(x_is_utype(s.as_bytes())); }
            kani::cover!(is_true);
            kani::cover!(!is_true);
        }
        Err(e) => { assert!(!x_is_utype(v)); assert!(e == ParserError::InvalidSubtag); }
    }
}

#[kani::proof]
#[kani::unwind(18)]
fn leaf_is_language_subtag() {
    let buf: [u8; N] = kani::any();
    let v = any_input(&buf);
    assert!(is_language_subtag(v) == x_lang_shaped(v));
}

#[kani::proof]
#[kani::unwind(66)]
fn leaf_transform_overlong() {
    let buf: [u8; LONG] = kani::any();
    let v = any_overlong(&buf);
    assert!(parse_tkey(v) == Err(ParserError::InvalidSubtag));
    assert!(parse_tvalue(v) == Err(ParserError::InvalidSubtag));
    assert!(!is_language_subtag(v));
}
