// U-WRAP — the thin wrappers around the language-identifier parser (C02: from_bytes, FromStr, canonicalize agree, including the
// error kind).  The parser itself is replaced by an oracle (its contract is the Verus obligation
// parser::parse_language_identifier_from_iter): an arbitrary deterministic function of (first subtag, allow_extension).
#![allow(dead_code, unused_imports, static_mut_refs)]
use crate::parser::ParserError;
use crate::subtags::{Language, Region, Script};
use crate::{LanguageIdentifier, LanguageIdentifierError};
use std::iter::Peekable;

static mut P_N: usize = 0;
static mut P_KEY: [(usize, usize, bool); 3] = [(0, 0, false); 3];
static mut P_OK: [bool; 3] = [false; 3];
static mut P_ERR_LANG: [bool; 3] = [false; 3];
static mut P_VAL: [(Option<u64>, Option<u32>, Option<u32>); 3] = [(None, None, None); 3];
fn parser_oracle<'a>(iter: &mut Peekable<impl Iterator<Item = &'a [u8]>>, allow_extension: bool) -> Result<LanguageIdentifier, ParserError> {
    let first = iter.peek().map(|s| (s.as_ptr() as usize, s.len())).unwrap_or((0, 0));
    let key = (first.0, first.1, allow_extension);
    unsafe {
        let mut k = 0;
        let mut hit = 3;
        while k < P_N { if P_KEY[k] == key { hit = k; } k += 1; }
        if hit == 3 {
            assert!(P_N < 3);
            hit = P_N;
            P_KEY[hit] = key;
            P_OK[hit] = kani::any();
            P_ERR_LANG[hit] = kani::any();
            let l: Option<u64> = if kani::any() { None } else { let v: u64 = kani::any(); kani::assume(v & 0x8080_8080_8080_8080 == 0 && v != 0x646e75); Some(v) };
            let s: Option<u32> = if kani::any() { None } else { let v: u32 = kani::any(); kani::assume(v & 0x8080_8080 == 0); Some(v) };
            let r: Option<u32> = if kani::any() { None } else { let v: u32 = kani::any(); kani::assume(v & 0x8080_8080 == 0); Some(v) };
            P_VAL[hit] = (l, s, r);
            P_N += 1;
        }
        if P_OK[hit] {
            let (l, s, r) = P_VAL[hit];
            Ok(LanguageIdentifier::from_raw_parts_unchecked(
                l.map_or(Language::default(), |v| Language::from_raw_unchecked(v)),
                s.map(|v| Script::from_raw_unchecked(v)), r.map(|v| Region::from_raw_unchecked(v)), None))
        } else if P_ERR_LANG[hit] { Err(ParserError::InvalidLanguage) } else { Err(ParserError::InvalidSubtag) }
    }
}
fn raw(li: &LanguageIdentifier) -> (Option<u64>, Option<u32>, Option<u32>, bool) {
    (li.language.into(), li.script.map(|x| x.into()), li.region.map(|x| x.into()), li.variants().len() == 0)
}
fn kind(e: &LanguageIdentifierError) -> u8 {
    match e { LanguageIdentifierError::ParserError(ParserError::InvalidLanguage) => 1, LanguageIdentifierError::ParserError(ParserError::InvalidSubtag) => 2, _ => 3 }
}

/// from_bytes and FromStr return the parser's verdict on the very same bytes with allow_extension = false: same value, same error
/// kind wrapped in LanguageIdentifierError::ParserError
#[kani::proof]
#[kani::unwind(10)]
#[kani::stub(crate::parser::parse_language_identifier_from_iter, parser_oracle)]
fn wrappers_agree_with_parser() {
    let buf: [u8; 4] = kani::any();
    let n: usize = kani::any();
    kani::assume(n <= 4);
    let mut i = 0;
    while i < 4 { kani::assume(buf[i] < 0x80); i += 1; }
    let bytes = &buf[..n];
    let s = unsafe { std::str::from_utf8_unchecked(bytes) };
    let mut it = bytes.split(|c| *c == b'-' || *c == b'_').peekable();
    let want = parser_oracle(&mut it, false);
    let a = LanguageIdentifier::from_bytes(bytes);
    let b: Result<LanguageIdentifier, LanguageIdentifierError> = s.parse();
    match (&want, &a, &b) {
        (Ok(w), Ok(x), Ok(y)) => assert!(raw(w) == raw(x) && raw(w) == raw(y)),
        (Err(e), Err(x), Err(y)) => {
            let k = if *e == ParserError::InvalidLanguage { 1 } else { 2 };
            assert!(kind(x) == k && kind(y) == k);
        }
        _ => assert!(false),
    }
    kani::cover!(a.is_ok());
    kani::cover!(a.is_err());
}
