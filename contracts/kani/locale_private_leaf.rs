// U-XLEAF (private.rs) — Kani harnesses on the real private leaf function of the -x- extension.
#![allow(dead_code, unused_imports)]
use super::*;

#[allow(dead_code, unused_parens)]
mod preds {
    //@PREDS@
}
use preds::*;

const N: usize = 16;
fn any_input(buf: &[u8; N]) -> &[u8] {
    let len: usize = kani::any();
    kani::assume(len <= N);
    &buf[..len]
}
const LONG: usize = 64;

#[kani::proof]
#[kani::unwind(18)]
fn leaf_parse_value() {
    let buf: [u8; N] = kani::any();
    let v = any_input(&buf);
    match parse_value(v) {
        Ok(s) => { assert!(x_is_private(v)); assert!(x_eq_lower(s.as_bytes(), v)); assert!(x_is_private(s.as_bytes())); kani::cover!(v.len() == 1); }
        Err(e) => { assert!(!x_is_private(v)); assert!(e == ParserError::InvalidSubtag); }
    }
}

#[kani::proof]
#[kani::unwind(66)]
fn leaf_private_overlong() {
    let buf: [u8; LONG] = kani::any();
    let len: usize = kani::any();
    kani::assume(len > N && len <= LONG);
    assert!(parse_value(&buf[..len]) == Err(ParserError::InvalidSubtag));
}

/// BOUNDED stand-in for the assumed contract of PrivateExtensionList::try_from_iter
/// (bound: at most 2 subtags of at most 3 bytes each; every byte symbolic).
fn sort2<T: Ord>(v: &mut [T]) {
    // stand-in for <[T]>::sort_unstable on <= 2 elements (the std sort itself is an assumed contract)
    if v.len() == 2 && v[1] < v[0] { v.swap(0, 1); }
}

#[kani::proof]
#[kani::unwind(10)]
#[kani::stub(<[tinystr::TinyAsciiStr<8>]>::sort_unstable, sort2)]
fn private_try_from_iter_bounded() {
    let a: [u8; 3] = kani::any();
    let b: [u8; 3] = kani::any();
    let la: usize = kani::any();
    let lb: usize = kani::any();
    let n: usize = kani::any();
    kani::assume(la <= 3 && lb <= 3 && n <= 2);
    let tags: [&[u8]; 2] = [&a[..la], &b[..lb]];
    let mut it = tags[..n].iter().copied();
    let r = PrivateExtensionList::try_from_iter(&mut it);
    let all_ok = (n < 1 || x_is_private(tags[0])) && (n < 2 || x_is_private(tags[1]));
    match r {
        Ok(p) => {
            assert!(all_ok);
            assert!(it.next().is_none());
            assert!(p.0.len() == n);
            if n == 1 { assert!(x_eq_lower(p.0[0].as_bytes(), tags[0])); }
            if n == 2 {
                assert!(x_lex_le(p.0[0].as_bytes(), p.0[1].as_bytes()));
                let same = x_eq_lower(p.0[0].as_bytes(), tags[0]) && x_eq_lower(p.0[1].as_bytes(), tags[1]);
                let swapped = x_eq_lower(p.0[0].as_bytes(), tags[1]) && x_eq_lower(p.0[1].as_bytes(), tags[0]);
                assert!(same || swapped);
            }
            kani::cover!(n == 2);
        }
        Err(e) => { assert!(!all_ok); assert!(e == ParserError::InvalidSubtag); }
    }
}
