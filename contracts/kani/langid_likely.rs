// U-LIKELY — the likely-subtags cascade of the REAL crate (C06, C07, C08), injected as a child of `likelysubtags`.
//
// `maximize` is verified for ALL raw (language, script, region) against the cascade stated in C06, with
// `<[T]>::binary_search_by_key` replaced by its ASSUMED std contract on a strictly sorted slice (strict sortedness of each
// table is the U-TAB obligation `*_sorted`): the stub returns Ok(i) with key(s[i]) == k, or Err(i) with
// key(s[i-1]) < k < key(s[i]); `i` is one symbolic index per table, shared with the specification side (memo), so the real
// table is read once per table.  `minimize` is verified against maximize's CONTRACT (C07), not its body.
#![allow(dead_code, unused_imports, unused_parens, static_mut_refs)]
use super::tables;
use super::{maximize, minimize};
use crate::subtags::{Language, Region, Script};

type Val = (Option<u64>, Option<u32>, Option<u32>);
type Triple = (Language, Option<Script>, Option<Region>);
type RowL = (u64, Val);
type RowLX = (u64, u32, Val);
type RowSR = (u32, u32, Val);
type RowX = (u32, Val);

// Type invariant of the raw forms: every byte is ASCII (TinyAsciiStr stores `AsciiByte`, an enum of the 128 ASCII
// values; a byte >= 0x80 is not a value of the type, and comparing such values is undefined behaviour, not a finding).
fn any_u64() -> u64 { let v: u64 = kani::any(); kani::assume(v & 0x8080_8080_8080_8080 == 0); v }
fn any_u32() -> u32 { let v: u32 = kani::any(); kani::assume(v & 0x8080_8080 == 0); v }
/// a non-empty language: never the text `und` (Language::from_bytes maps `und` to the empty language)
fn any_some_lang() -> Language { let v = any_u64(); kani::assume(v != 0x646e75); unsafe { Language::from_raw_unchecked(v) } }
fn any_lang() -> Language {
    if kani::any() { Language::default() } else { any_some_lang() }
}
fn any_script() -> Option<Script> {
    if kani::any() { None } else { Some(unsafe { Script::from_raw_unchecked(any_u32()) }) }
}
fn any_region() -> Option<Region> {
    if kani::any() { None } else { Some(unsafe { Region::from_raw_unchecked(any_u32()) }) }
}
fn lraw(l: Language) -> Option<u64> { l.into() }
fn sraw(s: Script) -> u32 { s.into() }
fn rraw(r: Region) -> u32 { r.into() }

// ---- the assumed contract of binary_search_by_key, with a per-table memo of the symbolic index ------------------
static mut MEMO: [Option<usize>; 6] = [None, None, None, None, None, None];

fn table_id<T>(p: *const T) -> usize {
    let p = p as usize;
    if p == tables::LANG_ONLY.as_ptr() as usize { 0 }
    else if p == tables::LANG_REGION.as_ptr() as usize { 1 }
    else if p == tables::LANG_SCRIPT.as_ptr() as usize { 2 }
    else if p == tables::SCRIPT_REGION.as_ptr() as usize { 3 }
    else if p == tables::SCRIPT_ONLY.as_ptr() as usize { 4 }
    else if p == tables::REGION_ONLY.as_ptr() as usize { 5 }
    else { 6 }
}

/// position of `b` in the strictly sorted `s`: Ok(i) with key(s[i]) == b, or Err(i) with key(s[i-1]) < b < key(s[i])
// (an associated fn of a generic impl so that the generic parameter order (T, 'a, B, F) is that of the std method)
struct Bs<T>(core::marker::PhantomData<T>);
impl<T> Bs<T> {
    fn contract<'a, B: Ord, F: FnMut(&'a T) -> B>(s: &'a [T], b: &B, f: F) -> Result<usize, usize> { bs_contract(s, b, f) }
}
impl<T> Bs<T> {
    /// for harnesses whose inputs are decided before a table is consulted: reaching the lookup at all is a failed obligation
    /// (so the table is never read and CBMC need not encode a symbolic read of its 7143 rows)
    fn never<'a, B: Ord, F: FnMut(&'a T) -> B>(_s: &'a [T], _b: &B, _f: F) -> Result<usize, usize> {
        assert!(false, "lookup in a table that must not be consulted for this input class");
        Err(0)
    }
    /// the assumed contract for every table but LANG_ONLY, which must not be consulted
    fn contract_not_lang_only<'a, B: Ord, F: FnMut(&'a T) -> B>(s: &'a [T], b: &B, f: F) -> Result<usize, usize> {
        if table_id(s.as_ptr()) == 0 { Self::never(s, b, f) } else { bs_contract(s, b, f) }
    }
}
fn bs_contract<'a, T, B: Ord, F: FnMut(&'a T) -> B>(s: &'a [T], b: &B, mut f: F) -> Result<usize, usize> {
    let n = s.len();
    let id = table_id(s.as_ptr());
    let memo = if id < 6 { unsafe { MEMO[id] } } else { None };
    let fits = |i: usize, f: &mut F| -> bool {
        i <= n && ((i < n && f(&s[i]) == *b) || ((i == 0 || f(&s[i - 1]) < *b) && (i == n || f(&s[i]) > *b)))
    };
    let i = match memo {
        Some(i) if fits(i, &mut f) => i,
        _ => {
            let i: usize = kani::any();
            kani::assume(fits(i, &mut f));
            if id < 6 { unsafe { MEMO[id] = Some(i); } }
            i
        }
    };
    if i < n && f(&s[i]) == *b { Ok(i) } else { Err(i) }
}

// ---- the specification side: what C06 says, written from the property statement -------------------------------
fn find_lang_only(l: u64) -> Option<Val> {
    bs_contract(&tables::LANG_ONLY[..], &l, |e| e.0).ok().map(|i| tables::LANG_ONLY[i].1)
}
fn find_lang_region(l: u64, r: u32) -> Option<Val> {
    bs_contract(&tables::LANG_REGION[..], &(l, r), |e| (e.0, e.1)).ok().map(|i| tables::LANG_REGION[i].2)
}
fn find_lang_script(l: u64, s: u32) -> Option<Val> {
    bs_contract(&tables::LANG_SCRIPT[..], &(l, s), |e| (e.0, e.1)).ok().map(|i| tables::LANG_SCRIPT[i].2)
}
fn find_script_region(s: u32, r: u32) -> Option<Val> {
    bs_contract(&tables::SCRIPT_REGION[..], &(s, r), |e| (e.0, e.1)).ok().map(|i| tables::SCRIPT_REGION[i].2)
}
fn find_script_only(s: u32) -> Option<Val> {
    bs_contract(&tables::SCRIPT_ONLY[..], &s, |e| e.0).ok().map(|i| tables::SCRIPT_ONLY[i].1)
}
fn find_region_only(r: u32) -> Option<Val> {
    bs_contract(&tables::REGION_ONLY[..], &r, |e| e.0).ok().map(|i| tables::REGION_ONLY[i].1)
}
/// the entry's value with every given subtag kept (a given subtag wins over the entry's)
fn merged(v: Val, s: Option<Script>, r: Option<Region>) -> Option<(u64, u32, u32)> {
    match v {
        (Some(vl), Some(vs), Some(vr)) => Some((vl, s.map_or(vs, sraw), r.map_or(vr, rraw))),
        _ => None, // a table value without language/script/region: excluded by U-TAB *_wf; reported here as a mismatch
    }
}
/// C06: most specific matching entry — (language, region) or (language, script), then language alone; for an
/// undetermined language (script, region), then script alone, or region alone; unchanged iff all three are present or
/// no entry matches.  None = unchanged.
fn cascade_spec(l: Language, s: Option<Script>, r: Option<Region>) -> Option<(u64, u32, u32)> {
    if !l.is_empty() && s.is_some() && r.is_some() { return None; }
    if let Some(lr) = lraw(l) {
        if let Some(rr) = r { if let Some(v) = find_lang_region(lr, rraw(rr)) { return merged(v, s, r); } }
        if let Some(ss) = s { if let Some(v) = find_lang_script(lr, sraw(ss)) { return merged(v, s, r); } }
        if let Some(v) = find_lang_only(lr) { return merged(v, s, r); }
        None
    } else if let Some(ss) = s {
        if let Some(rr) = r { if let Some(v) = find_script_region(sraw(ss), rraw(rr)) { return merged(v, s, r); } }
        if let Some(v) = find_script_only(sraw(ss)) { return merged(v, s, r); }
        None // (und_region after an unknown script is a UTS #35 fallback the statement leaves open; the library answers None)
    } else if let Some(rr) = r {
        find_region_only(rraw(rr)).and_then(|v| merged(v, s, r))
    } else {
        None // bare `und`: left open by the statement; the library answers None
    }
}
fn raw3(t: Option<Triple>) -> Option<(Option<u64>, Option<u32>, Option<u32>)> {
    t.map(|(l, s, r)| (lraw(l), s.map(sraw), r.map(rraw)))
}

#[kani::proof]
#[kani::unwind(10)]
#[kani::stub(<[(u64, u32, (std::option::Option<u64>, std::option::Option<u32>, std::option::Option<u32>))]>::binary_search_by_key, Bs::contract)]
#[kani::stub(<[(u32, u32, (std::option::Option<u64>, std::option::Option<u32>, std::option::Option<u32>))]>::binary_search_by_key, Bs::contract)]
#[kani::stub(<[(u32, (std::option::Option<u64>, std::option::Option<u32>, std::option::Option<u32>))]>::binary_search_by_key, Bs::contract)]
#[kani::stub(<[(u64, (std::option::Option<u64>, std::option::Option<u32>, std::option::Option<u32>))]>::binary_search_by_key, Bs::contract)]
fn maximize_is_cascade_no_lang() {
    // undetermined language: SCRIPT_REGION, SCRIPT_ONLY, REGION_ONLY
    let (l, s, r) = (Language::default(), any_script(), any_region());
    let want = cascade_spec(l, s, r);
    let got = raw3(maximize(l, s, r));
    assert!(got == want.map(|(a, b, c)| (Some(a), Some(b), Some(c))));
    // C07 (same run, on the value already computed): fills all three, every given subtag kept, something was missing
    if let Some((l2, s2, r2)) = got {
        assert!(l2.is_some() && s2.is_some() && r2.is_some());
        assert!((l.is_empty() || l2 == lraw(l)) && (s.is_none() || s2 == s.map(sraw)) && (r.is_none() || r2 == r.map(rraw)));
        assert!(l.is_empty() || s.is_none() || r.is_none());
    }
    kani::cover!(got.is_some());
    kani::cover!(got.is_none() && s.is_some());
    // bare `und` is reported unchanged (part of maximize's contract used by the C08 oracle)
    assert!(maximize(Language::default(), None, None).is_none());
}

#[kani::proof]
#[kani::unwind(10)]
#[kani::stub(<[(u64, u32, (std::option::Option<u64>, std::option::Option<u32>, std::option::Option<u32>))]>::binary_search_by_key, Bs::contract)]
#[kani::stub(<[(u32, u32, (std::option::Option<u64>, std::option::Option<u32>, std::option::Option<u32>))]>::binary_search_by_key, Bs::contract)]
#[kani::stub(<[(u32, (std::option::Option<u64>, std::option::Option<u32>, std::option::Option<u32>))]>::binary_search_by_key, Bs::contract)]
#[kani::stub(<[(u64, (std::option::Option<u64>, std::option::Option<u32>, std::option::Option<u32>))]>::binary_search_by_key, Bs::contract)]
fn maximize_is_cascade_lang() {
    // a language is given: LANG_REGION, LANG_SCRIPT, LANG_ONLY
    let l = any_some_lang();
    let (s, r) = (any_script(), any_region());
    let want = cascade_spec(l, s, r);
    let got = raw3(maximize(l, s, r));
    assert!(got == want.map(|(a, b, c)| (Some(a), Some(b), Some(c))));
    // C07 (same run, on the value already computed): fills all three, every given subtag kept, something was missing
    if let Some((l2, s2, r2)) = got {
        assert!(l2.is_some() && s2.is_some() && r2.is_some());
        assert!((l.is_empty() || l2 == lraw(l)) && (s.is_none() || s2 == s.map(sraw)) && (r.is_none() || r2 == r.map(rraw)));
        assert!(l.is_empty() || s.is_none() || r.is_none());
    }
    kani::cover!(got.is_some() && s.is_some());
    kani::cover!(got.is_some() && r.is_some());
    kani::cover!(got.is_none() && s.is_none());
}

/// C07 idempotence: a result of maximize has all three subtags (asserted in every cascade harness), and maximize reports
/// `unchanged` on every identifier that has all three — for ALL raw values, no table involved
// no table may be consulted on these inputs (Bs::never: reaching a lookup fails the harness)
#[kani::proof]
#[kani::unwind(10)]
#[kani::stub(<[(u64, u32, (std::option::Option<u64>, std::option::Option<u32>, std::option::Option<u32>))]>::binary_search_by_key, Bs::never)]
#[kani::stub(<[(u32, u32, (std::option::Option<u64>, std::option::Option<u32>, std::option::Option<u32>))]>::binary_search_by_key, Bs::never)]
#[kani::stub(<[(u32, (std::option::Option<u64>, std::option::Option<u32>, std::option::Option<u32>))]>::binary_search_by_key, Bs::never)]
#[kani::stub(<[(u64, (std::option::Option<u64>, std::option::Option<u32>, std::option::Option<u32>))]>::binary_search_by_key, Bs::never)]
fn maximize_full_is_unchanged() {
    let (l, s, r) = (any_some_lang(), any_script(), any_region());
    kani::assume(s.is_some() && r.is_some());
    assert!(maximize(l, s, r).is_none());
}

/// C07 on the library function: only adds, fills all three, idempotent (for ALL raw inputs; the table facts it needs —
/// every value carries all three subtags and keeps its key's subtags — are read from the real tables at the symbolic index)
#[kani::proof]
#[kani::unwind(10)]
#[kani::stub(<[(u64, u32, (std::option::Option<u64>, std::option::Option<u32>, std::option::Option<u32>))]>::binary_search_by_key, Bs::contract)]
#[kani::stub(<[(u32, u32, (std::option::Option<u64>, std::option::Option<u32>, std::option::Option<u32>))]>::binary_search_by_key, Bs::contract)]
#[kani::stub(<[(u32, (std::option::Option<u64>, std::option::Option<u32>, std::option::Option<u32>))]>::binary_search_by_key, Bs::contract)]
#[kani::stub(<[(u64, (std::option::Option<u64>, std::option::Option<u32>, std::option::Option<u32>))]>::binary_search_by_key, Bs::contract)]
fn maximize_only_adds_fills_idempotent() {
    let (l, s, r) = (any_lang(), any_script(), any_region());
    match maximize(l, s, r) {
        Some((l2, s2, r2)) => {
            assert!(!l2.is_empty() && s2.is_some() && r2.is_some());
            assert!(l.is_empty() || l2 == l);
            assert!(s.is_none() || s2 == s);
            assert!(r.is_none() || r2 == r);
            // at least one subtag was missing before
            assert!(l.is_empty() || s.is_none() || r.is_none());
            // maximizing the result changes nothing
            assert!(maximize(l2, s2, r2).is_none());
        }
        None => {}
    }
    kani::cover!(maximize(l, s, r).is_some());
}

// ---- C08: minimize verified against maximize's CONTRACT ---------------------------------------------------------
// `maximize` is replaced by M: an arbitrary but deterministic (memoised) function constrained only by what the
// harnesses above prove of the real maximize for all inputs: None when all three are present; None for bare `und`;
// otherwise None or Some((l', Some(s'), Some(r'))) with every given subtag kept and l' non-empty.  No table is read.
// at most four distinct keys are ever asked in one harness (the input and the three candidate forms of its maximized form); the
// assertion in m_oracle checks that the memo never overflows
const M_SLOTS: usize = 6;
static mut M_N: usize = 0;
static mut M_ARGS: [(Option<u64>, Option<u32>, Option<u32>); M_SLOTS] = [(None, None, None); M_SLOTS];
static mut M_RES: [Option<(u64, u32, u32)>; M_SLOTS] = [None; M_SLOTS];

fn m_oracle(l: Language, s: Option<Script>, r: Option<Region>) -> Option<Triple> {
    let key = (lraw(l), s.map(sraw), r.map(rraw));
    unsafe {
        let mut i = 0;
        while i < M_N && i < M_SLOTS {
            if M_ARGS[i] == key {
                return M_RES[i].map(|(a, b, c)| (Language::from_raw_unchecked(a), Some(Script::from_raw_unchecked(b)), Some(Region::from_raw_unchecked(c))));
            }
            i += 1;
        }
        let full = key.0.is_some() && key.1.is_some() && key.2.is_some();
        let bare = key.0.is_none() && key.1.is_none() && key.2.is_none();
        let res: Option<(u64, u32, u32)> = if full || bare || kani::any() { None } else {
            Some((key.0.unwrap_or(any_u64()), key.1.unwrap_or(any_u32()), key.2.unwrap_or(any_u32())))
        };
        assert!(M_N < M_SLOTS); // the memo is large enough for every call sequence explored
        M_ARGS[M_N] = key;
        M_RES[M_N] = res;
        M_N += 1;
        res.map(|(a, b, c)| (Language::from_raw_unchecked(a), Some(Script::from_raw_unchecked(b)), Some(Region::from_raw_unchecked(c))))
    }
}
fn is_full(t: Triple) -> bool { !t.0.is_empty() && t.1.is_some() && t.2.is_some() }
/// M*: the maximized form of x (x itself when already full), None when maximize reports unchanged on a non-full x
fn mstar(t: Triple) -> Option<Triple> { if is_full(t) { Some(t) } else { m_oracle(t.0, t.1, t.2) } }
fn cnt(t: Triple) -> u8 { t.1.is_some() as u8 + t.2.is_some() as u8 }

#[kani::proof]
#[kani::unwind(10)]
#[kani::stub(maximize, m_oracle)]
fn minimize_laws() { laws_body((any_lang(), any_script(), any_region())); }
fn laws_body(x: Triple) {
    let mx = mstar(x);
    match minimize(x.0, x.1, x.2) {
        Some(y) => {
            // a changed result exists only when the input maximizes to something
            assert!(mx.is_some());
            let m = mx.unwrap();
            // the result maximizes to the same (language, script, region) as the original
            assert!(mstar(y) == Some(m));
            // it uses no subtag the maximized original lacks
            assert!(y.0 == m.0 && (y.1.is_none() || y.1 == m.1) && (y.2.is_none() || y.2 == m.2));
            // it has no more script/region subtags than the original
            assert!(cnt(y) <= cnt(x));
            // it is the FIRST of {language, language-region, language-script} that maximizes back
            if m_oracle(m.0, None, None) == Some(m) {
                assert!(y == (m.0, None, None));
            } else if m_oracle(m.0, None, m.2) == Some(m) {
                assert!(y == (m.0, None, m.2));
            } else {
                assert!(m_oracle(m.0, m.1, None) == Some(m) && y == (m.0, m.1, None));
            }
        }
        None => {
            // unchanged only when the input does not maximize or none of the three forms maximizes back
            if let Some(m) = mx {
                assert!(m_oracle(m.0, None, None) != Some(m));
                assert!(m_oracle(m.0, None, m.2) != Some(m));
                assert!(m_oracle(m.0, m.1, None) != Some(m));
            }
        }
    }
}

fn apply_min(x: Triple) -> Triple { minimize(x.0, x.1, x.2).unwrap_or(x) }
fn apply_max(x: Triple) -> Triple { maximize(x.0, x.1, x.2).unwrap_or(x) }

#[kani::proof]
#[kani::unwind(10)]
#[kani::stub(maximize, m_oracle)]
fn minimize_idempotent() { idem_body((any_lang(), any_script(), any_region())); }
fn idem_body(x: Triple) {
    let y = apply_min(x);
    // minimizing twice equals minimizing once
    assert!(apply_min(y) == y);
}

/// minimize(maximize(x)) equals minimize(x) — for every x for which one of the three candidate forms maximizes back to
/// the maximized x (or which does not maximize at all).  For the remaining inputs the law cannot hold together with the
/// other clauses of C08 (see DESIGN.md, finding F1, and the harness `finding_minimize_after_maximize_und_arab_id`).
#[kani::proof]
#[kani::unwind(10)]
#[kani::stub(maximize, m_oracle)]
fn minimize_after_maximize() { after_max_body((any_lang(), any_script(), any_region())); }
fn after_max_body(x: Triple) {
    if let Some(m) = mstar(x) {
        kani::assume(m_oracle(m.0, None, None) == Some(m) || m_oracle(m.0, None, m.2) == Some(m) || m_oracle(m.0, m.1, None) == Some(m));
    }
    let y = apply_min(x);
    assert!(apply_min(apply_max(x)) == y);
}
/// vacuity guard for the three C08 bodies: a changed result, an unchanged one with a maximizing input, and a changed result for an
/// input with a language are all reachable under the oracle
#[kani::proof]
#[kani::unwind(10)]
#[kani::stub(maximize, m_oracle)]
fn minimize_oracle_not_vacuous() {
    let x: Triple = (Language::default(), any_script(), any_region());
    let y = minimize(x.0, x.1, x.2);
    kani::cover!(y.is_some());
    kani::cover!(y.is_none() && mstar(x).is_some());
    let z: Triple = (any_some_lang(), None, any_region());
    kani::cover!(apply_min(z) != z);
}

/// F1 (known finding, real tables, no stub): und-Arab-ID maximizes to ms-Arab-ID, none of ms / ms-ID / ms-Arab maximizes
/// back to it, so minimize leaves both unchanged and minimize(maximize(x)) != minimize(x).
#[kani::proof]
#[kani::unwind(16)]
fn finding_minimize_after_maximize_und_arab_id() {
    let x: Triple = (Language::default(), Some(Script::from_bytes(b"Arab").unwrap()), Some(Region::from_bytes(b"ID").unwrap()));
    let y = apply_min(x);
    assert!(apply_min(apply_max(x)) == y);
}

/// quick-tier slice of maximize_is_cascade_lang: inputs decided by a (language, region) or (language, script) entry;
/// for these the language-only table must not be consulted at all (Bs::never: reaching that lookup fails the harness)
#[kani::proof]
#[kani::unwind(10)]
#[kani::stub(<[(u64, u32, (std::option::Option<u64>, std::option::Option<u32>, std::option::Option<u32>))]>::binary_search_by_key, Bs::contract_not_lang_only)]
#[kani::stub(<[(u32, u32, (std::option::Option<u64>, std::option::Option<u32>, std::option::Option<u32>))]>::binary_search_by_key, Bs::contract_not_lang_only)]
#[kani::stub(<[(u32, (std::option::Option<u64>, std::option::Option<u32>, std::option::Option<u32>))]>::binary_search_by_key, Bs::contract_not_lang_only)]
#[kani::stub(<[(u64, (std::option::Option<u64>, std::option::Option<u32>, std::option::Option<u32>))]>::binary_search_by_key, Bs::contract_not_lang_only)]
fn maximize_is_cascade_lang_specific() {
    let l = any_some_lang();
    let (s, r) = (any_script(), any_region());
    let lr = lraw(l).unwrap();
    let hit_lr = r.is_some() && find_lang_region(lr, rraw(r.unwrap())).is_some();
    let hit_ls = s.is_some() && find_lang_script(lr, sraw(s.unwrap())).is_some();
    kani::assume(hit_lr || hit_ls);
    // cascade_spec restricted to this input class (its language-only step is not reached): all three present -> unchanged,
    // else the (language, region) entry, else the (language, script) entry, every given subtag kept
    let want = if s.is_some() && r.is_some() { None }
        else if hit_lr { merged(find_lang_region(lr, rraw(r.unwrap())).unwrap(), s, r) }
        else { merged(find_lang_script(lr, sraw(s.unwrap())).unwrap(), s, r) };
    let got = raw3(maximize(l, s, r));
    assert!(got == want.map(|(a, b, c)| (Some(a), Some(b), Some(c))));
    // C07 (same run, on the value already computed): fills all three, every given subtag kept, something was missing
    if let Some((l2, s2, r2)) = got {
        assert!(l2.is_some() && s2.is_some() && r2.is_some());
        assert!((l.is_empty() || l2 == lraw(l)) && (s.is_none() || s2 == s.map(sraw)) && (r.is_none() || r2 == r.map(rraw)));
        assert!(l.is_empty() || s.is_none() || r.is_none());
    }
    kani::cover!(got.is_some() && hit_lr);
    kani::cover!(got.is_some() && hit_ls && !hit_lr);
}
