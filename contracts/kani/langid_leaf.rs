// U-SUB — Kani harnesses on the REAL subtag leaf functions of unic-langid-impl (real tinystr).
// Injected into a scratch copy of /repo as `src/verif_langid_leaf.rs` + `#[cfg(kani)] mod verif_langid_leaf;`
// `preds` is contracts/leaf_preds.rs, the same text Verus proves equal to the spec vocabulary.
#![allow(dead_code, unused_imports)]
use crate::parser::ParserError;
use crate::subtags::{Language, Region, Script, Variant};
use std::convert::TryFrom;

#[allow(dead_code, unused_parens)]
mod preds {
    //@PREDS@
}
use preds::*;

const N: usize = 16;

fn any_input(buf: &[u8; N]) -> &[u8] {
    let len: usize = kani::any();
    kani::assume(len <= N);
    &buf[..len]
}

const LONG: usize = 64;
/// over-long inputs: every byte string of length 17..=64
fn any_overlong(buf: &[u8; LONG]) -> &[u8] {
    let len: usize = kani::any();
    kani::assume(len > N && len <= LONG);
    &buf[..len]
}

// ---- C15: from_bytes against the UTS #35 productions, all byte strings ------------------

#[kani::proof]
#[kani::unwind(18)]
fn leaf_language_from_bytes() {
    let buf: [u8; N] = kani::any();
    let v = any_input(&buf);
    match Language::from_bytes(v) {
        Ok(l) => {
            assert!(x_is_language(v));
            let is_und = x_eq_lower(b"und", v);
            assert!(l.is_empty() == is_und);
            // as_str() exposes the lower-cased text ("und" for the empty language)
            assert!(x_eq_lower(l.as_str().as_bytes(), v));
            // integer form is None exactly for the empty language
            assert!(Option::<u64>::from(l).is_none() == is_und);
            kani::cover!(is_und);
            kani::cover!(v.len() == 8);
        }
        Err(e) => {
            assert!(!x_is_language(v));
            assert!(e == ParserError::InvalidLanguage);
        }
    }
}

#[kani::proof]
#[kani::unwind(18)]
fn leaf_script_from_bytes() {
    let buf: [u8; N] = kani::any();
    let v = any_input(&buf);
    match Script::from_bytes(v) {
        Ok(s) => {
            assert!(x_is_script(v));
            assert!(x_eq_title(s.as_str().as_bytes(), v));
            kani::cover!(true);
        }
        Err(e) => {
            assert!(!x_is_script(v));
            assert!(e == ParserError::InvalidSubtag);
        }
    }
}

#[kani::proof]
#[kani::unwind(18)]
fn leaf_region_from_bytes() {
    let buf: [u8; N] = kani::any();
    let v = any_input(&buf);
    match Region::from_bytes(v) {
        Ok(s) => {
            assert!(x_is_region(v));
            assert!(x_eq_upper(s.as_str().as_bytes(), v));
            kani::cover!(v.len() == 2);
            kani::cover!(v.len() == 3);
        }
        Err(e) => {
            assert!(!x_is_region(v));
            assert!(e == ParserError::InvalidSubtag);
        }
    }
}

#[kani::proof]
#[kani::unwind(18)]
fn leaf_variant_from_bytes() {
    let buf: [u8; N] = kani::any();
    let v = any_input(&buf);
    match Variant::from_bytes(v) {
        Ok(s) => {
            assert!(x_is_variant(v));
            assert!(x_eq_lower(s.as_str().as_bytes(), v));
            kani::cover!(v.len() == 4);
            kani::cover!(v.len() == 8);
        }
        Err(e) => {
            assert!(!x_is_variant(v));
            assert!(e == ParserError::InvalidSubtag);
        }
    }
}

#[kani::proof]
#[kani::unwind(18)]
fn leaf_from_bytes_overlong() {
    let buf: [u8; LONG] = kani::any();
    let v = any_overlong(&buf);
    assert!(Language::from_bytes(v) == Err(ParserError::InvalidLanguage));
    assert!(Script::from_bytes(v) == Err(ParserError::InvalidSubtag));
    assert!(Region::from_bytes(v) == Err(ParserError::InvalidSubtag));
    assert!(Variant::from_bytes(v) == Err(ParserError::InvalidSubtag));
}

#[kani::proof]
#[kani::unwind(18)]
fn leaf_language_default_is_und() {
    let d = Language::default();
    assert!(d.is_empty());
    assert!(x_eq_bytes(d.as_str().as_bytes(), b"und"));
    assert!(Option::<u64>::from(d).is_none());
    let buf: [u8; N] = kani::any();
    let v = any_input(&buf);
    if let Ok(mut l) = Language::from_bytes(v) {
        l.clear();
        assert!(l == d);
    }
    let none: Option<&[u8]> = None;
    assert!(Language::try_from(none) == Ok(d));
    assert!(Language::try_from(Some(v)) == Language::from_bytes(v));
}
