// U-SUB — Kani harnesses on the REAL subtag leaf functions of unic-langid-impl (real tinystr).
// Injected into a scratch copy of /repo as `src/verif_langid_leaf.rs` + `#[cfg(kani)] mod verif_langid_leaf;`
// `preds` is contracts/leaf_preds.rs, the same text Verus proves equal to the spec vocabulary.
#![allow(dead_code, unused_imports)]
use crate::parser::ParserError;
use crate::subtags::{Language, Region, Script, Variant};
use std::convert::TryFrom;

#[allow(dead_code, unused_parens)]
mod preds {
    //@PREDS@
}
use preds::*;

const N: usize = 16;

fn any_input(buf: &[u8; N]) -> &[u8] {
    let len: usize = kani::any();
    kani::assume(len <= N);
    &buf[..len]
}

const LONG: usize = 64;
/// over-long inputs: every byte string of length 17..=64
fn any_overlong(buf: &[u8; LONG]) -> &[u8] {
    let len: usize = kani::any();
    kani::assume(len > N && len <= LONG);
    &buf[..len]
}

// ---- C15: from_bytes against the UTS #35 productions, all byte strings ------------------

#[kani::proof]
#[kani::unwind(18)]
fn leaf_language_from_bytes() {
    let buf: [u8; N] = kani::any();
    let v = any_input(&buf);
    match Language::from_bytes(v) {
        Ok(l) => {
            assert!(x_is_language(v));
            let is_und = x_eq_lower(b"und", v);
            assert!(l.is_empty() == is_und);
            // as_str() exposes the lower-cased text ("und" for the empty language)
            assert!(x_eq_lower(l.as_str().as_bytes(), v));
            // integer form is None exactly for the empty language
            assert!(Option::<u64>::from(l).is_none() == is_und);
            kani::cover!(is_und);
            kani::cover!(v.len() == 8);
        }
        Err(e) => {
            assert!(!x_is_language(v));
            assert!(e == ParserError::InvalidLanguage);
        }
    }
}

#[kani::proof]
#[kani::unwind(18)]
fn leaf_script_from_bytes() {
    let buf: [u8; N] = kani::any();
    let v = any_input(&buf);
    match Script::from_bytes(v) {
        Ok(s) => {
            assert!(x_is_script(v));
            assert!(x_eq_title(s.as_str().as_bytes(), v));
            kani::cover!(true);
        }
        Err(e) => {
            assert!(!x_is_script(v));
            assert!(e == ParserError::InvalidSubtag);
        }
    }
}

#[kani::proof]
#[kani::unwind(18)]
fn leaf_region_from_bytes() {
    let buf: [u8; N] = kani::any();
    let v = any_input(&buf);
    match Region::from_bytes(v) {
        Ok(s) => {
            assert!(x_is_region(v));
            assert!(x_eq_upper(s.as_str().as_bytes(), v));
            kani::cover!(v.len() == 2);
            kani::cover!(v.len() == 3);
        }
        Err(e) => {
            assert!(!x_is_region(v));
            assert!(e == ParserError::InvalidSubtag);
        }
    }
}

#[kani::proof]
#[kani::unwind(18)]
fn leaf_variant_from_bytes() {
    let buf: [u8; N] = kani::any();
    let v = any_input(&buf);
    match Variant::from_bytes(v) {
        Ok(s) => {
            assert!(x_is_variant(v));
            assert!(x_eq_lower(s.as_str().as_bytes(), v));
            kani::cover!(v.len() == 4);
            kani::cover!(v.len() == 8);
        }
        Err(e) => {
            assert!(!x_is_variant(v));
            assert!(e == ParserError::InvalidSubtag);
        }
    }
}

#[kani::proof]
#[kani::unwind(18)]
fn leaf_from_bytes_overlong() {
    let buf: [u8; LONG] = kani::any();
    let v = any_overlong(&buf);
    assert!(Language::from_bytes(v) == Err(ParserError::InvalidLanguage));
    assert!(Script::from_bytes(v) == Err(ParserError::InvalidSubtag));
    assert!(Region::from_bytes(v) == Err(ParserError::InvalidSubtag));
    assert!(Variant::from_bytes(v) == Err(ParserError::InvalidSubtag));
}

#[kani::proof]
#[kani::unwind(18)]
fn leaf_language_default_is_und() {
    let d = Language::default();
    assert!(d.is_empty());
    assert!(x_eq_bytes(d.as_str().as_bytes(), b"und"));
    assert!(Option::<u64>::from(d).is_none());
    let buf: [u8; N] = kani::any();
    let v = any_input(&buf);
    if let Ok(mut l) = Language::from_bytes(v) {
        l.clear();
        assert!(l == d);
    }
    let none: Option<&[u8]> = None;
    assert!(Language::try_from(none) == Ok(d));
    assert!(Language::try_from(Some(v)) == Language::from_bytes(v));
}

// ---- C12 / C17: derived Eq/Ord are those of the text; raw integer round trip; injectivity --------

fn any_variant() -> Option<Variant> {
    let buf: [u8; 9] = kani::any();
    let len: usize = kani::any();
    kani::assume(len <= 9);
    Variant::from_bytes(&buf[..len]).ok()
}
fn any_language() -> Option<Language> {
    let buf: [u8; 9] = kani::any();
    let len: usize = kani::any();
    kani::assume(len <= 9);
    Language::from_bytes(&buf[..len]).ok()
}
fn any_script() -> Option<Script> {
    let buf: [u8; 5] = kani::any();
    let len: usize = kani::any();
    kani::assume(len <= 5);
    Script::from_bytes(&buf[..len]).ok()
}
fn any_region() -> Option<Region> {
    let buf: [u8; 5] = kani::any();
    let len: usize = kani::any();
    kani::assume(len <= 5);
    Region::from_bytes(&buf[..len]).ok()
}

#[kani::proof]
#[kani::unwind(11)]
fn leaf_variant_ord_is_lex() {
    if let (Some(a), Some(b)) = (any_variant(), any_variant()) {
        let (x, y) = (a.as_str().as_bytes(), b.as_str().as_bytes());
        assert!((a == b) == x_eq_bytes(x, y));
        assert!((a <= b) == x_lex_le(x, y));
        assert!((a.cmp(&b) == std::cmp::Ordering::Equal) == (a == b));
        assert!((a.cmp(&b) == std::cmp::Ordering::Less) == (x_lex_le(x, y) && !x_eq_bytes(x, y)));
        assert!(a.partial_cmp(&b) == Some(a.cmp(&b)));
        // C17: distinct subtags have distinct integer forms; the raw constructor is the inverse
        assert!((u64::from(a) == u64::from(b)) == (a == b));
        let back = unsafe { Variant::from_raw_unchecked(u64::from(a)) };
        assert!(back == a && x_eq_bytes(back.as_str().as_bytes(), x));
        assert!(u64::from(&a) == u64::from(a));
        // C15: comparison with &str exposes the same text
        kani::cover!(a < b);
    }
}

#[kani::proof]
#[kani::unwind(11)]
fn leaf_language_ord_is_lex() {
    if let (Some(a), Some(b)) = (any_language(), any_language()) {
        let (x, y) = (a.as_str().as_bytes(), b.as_str().as_bytes());
        // 'und' is the empty language and sorts first (None < Some)
        assert!((a == b) == x_eq_bytes(x, y));
        let le_spec = if a.is_empty() { true } else if b.is_empty() { false } else { x_lex_le(x, y) };
        assert!((a <= b) == le_spec);
        assert!((a.cmp(&b) == std::cmp::Ordering::Equal) == (a == b));
        assert!(a.partial_cmp(&b) == Some(a.cmp(&b)));
        assert!((Option::<u64>::from(a) == Option::<u64>::from(b)) == (a == b));
        if let Some(raw) = Option::<u64>::from(a) {
            let back = unsafe { Language::from_raw_unchecked(raw) };
            assert!(back == a && x_eq_bytes(back.as_str().as_bytes(), x));
        }
        assert!(Option::<u64>::from(&a) == Option::<u64>::from(a));
        kani::cover!(a < b);
        kani::cover!(a.is_empty() && !b.is_empty());
    }
}

#[kani::proof]
#[kani::unwind(7)]
fn leaf_script_ord_is_lex() {
    if let (Some(a), Some(b)) = (any_script(), any_script()) {
        let (x, y) = (a.as_str().as_bytes(), b.as_str().as_bytes());
        assert!((a == b) == x_eq_bytes(x, y));
        assert!((a <= b) == x_lex_le(x, y));
        assert!((a.cmp(&b) == std::cmp::Ordering::Equal) == (a == b));
        assert!((u32::from(a) == u32::from(b)) == (a == b));
        let back = unsafe { Script::from_raw_unchecked(u32::from(a)) };
        assert!(back == a && x_eq_bytes(back.as_str().as_bytes(), x));
        let s: &str = (&a).into();
        assert!(x_eq_bytes(s.as_bytes(), x));
        kani::cover!(a < b);
    }
}

#[kani::proof]
#[kani::unwind(7)]
fn leaf_region_ord_is_lex() {
    if let (Some(a), Some(b)) = (any_region(), any_region()) {
        let (x, y) = (a.as_str().as_bytes(), b.as_str().as_bytes());
        assert!((a == b) == x_eq_bytes(x, y));
        assert!((a <= b) == x_lex_le(x, y));
        assert!((a.cmp(&b) == std::cmp::Ordering::Equal) == (a == b));
        assert!((u32::from(a) == u32::from(b)) == (a == b));
        let back = unsafe { Region::from_raw_unchecked(u32::from(a)) };
        assert!(back == a && x_eq_bytes(back.as_str().as_bytes(), x));
        let s: &str = (&a).into();
        assert!(x_eq_bytes(s.as_bytes(), x));
        kani::cover!(a < b);
    }
}

/// C15 / C12: `subtag == &str` is true iff the string equals the canonical text
#[kani::proof]
#[kani::unwind(11)]
fn leaf_subtag_eq_str() {
    let sbuf: [u8; 9] = kani::any();
    let slen: usize = kani::any();
    kani::assume(slen <= 9);
    // any ASCII string (non-ASCII strings can never equal an ASCII text; covered by the byte comparison below)
    let mut i = 0;
    while i < 9 { kani::assume(sbuf[i] < 0x80); i += 1; }
    let s: &str = unsafe { std::str::from_utf8_unchecked(&sbuf[..slen]) };
    if let Some(a) = any_variant() { assert!((a == s) == x_eq_bytes(a.as_str().as_bytes(), s.as_bytes())); assert!((a == *s) == (a == s)); }
    if let Some(a) = any_language() { assert!((a == s) == x_eq_bytes(a.as_str().as_bytes(), s.as_bytes())); }
    if let Some(a) = any_script() { assert!((a == s) == x_eq_bytes(a.as_str().as_bytes(), s.as_bytes())); }
    if let Some(a) = any_region() { assert!((a == s) == x_eq_bytes(a.as_str().as_bytes(), s.as_bytes())); }
}
