// U-ORD — Kani harnesses for Eq / Ord / PartialOrd / Hash of LanguageIdentifier (C12) on the REAL compiled derives.
// Identifiers are built with the raw (unchecked) constructor from arbitrary integers: the derived impls only use
// `==` / `cmp` / `hash` of the fields, so every representable field value is covered (variant lists: length <= 2).
#![allow(dead_code, unused_imports)]
use crate::subtags::{Language, Region, Script, Variant};
use crate::LanguageIdentifier;
use std::cmp::Ordering;
use std::hash::{Hash, Hasher};

fn any_lang() -> Language {
    if kani::any() { Language::default() } else { unsafe { Language::from_raw_unchecked(kani::any()) } }
}
fn any_script() -> Option<Script> {
    if kani::any() { None } else { Some(unsafe { Script::from_raw_unchecked(kani::any()) }) }
}
fn any_region() -> Option<Region> {
    if kani::any() { None } else { Some(unsafe { Region::from_raw_unchecked(kani::any()) }) }
}
/// variant lists of length 0..=2 (None, Some([]), Some([a]), Some([a,b])) — BOUND in list length
fn any_variants() -> Option<Box<[Variant]>> {
    let n: u8 = kani::any();
    let a = unsafe { Variant::from_raw_unchecked(kani::any()) };
    let b = unsafe { Variant::from_raw_unchecked(kani::any()) };
    match n % 4 {
        0 => None,
        1 => Some(vec![].into_boxed_slice()),
        2 => Some(vec![a].into_boxed_slice()),
        _ => Some(vec![a, b].into_boxed_slice()),
    }
}

/// A deterministic Hasher that folds every byte it is given (the default `write_*` methods all funnel into `write`);
/// rotate / xor only, so that the SAT back end is not asked to reason about multiplication.
struct Fold(u64);
impl Hasher for Fold {
    fn finish(&self) -> u64 { self.0 }
    fn write(&mut self, bytes: &[u8]) {
        let mut i = 0;
        while i < bytes.len() {
            self.0 = self.0.rotate_left(7) ^ (bytes[i] as u64) ^ 0x9e37;
            i += 1;
        }
    }
}
fn fold_hash<T: Hash>(x: &T) -> u64 { let mut h = Fold(14695981039346656037); x.hash(&mut h); h.finish() }

/// what C12 prescribes: compare language, then script, region and variants, field by field
fn fieldwise(la: Language, sa: Option<Script>, ra: Option<Region>, va: &Option<Box<[Variant]>>,
             lb: Language, sb: Option<Script>, rb: Option<Region>, vb: &Option<Box<[Variant]>>) -> Ordering {
    match la.cmp(&lb) {
        Ordering::Equal => match sa.cmp(&sb) {
            Ordering::Equal => match ra.cmp(&rb) {
                Ordering::Equal => va.cmp(vb),
                o => o,
            },
            o => o,
        },
        o => o,
    }
}

/// derived Ord / PartialOrd / PartialEq of LanguageIdentifier = field-by-field comparison in the order language, script,
/// region (no variants on either side); an absent subtag sorts first; antisymmetry; == iff Equal
#[kani::proof]
#[kani::unwind(10)]
fn lid_ord_fields_no_variants() {
    let (la, sa, rga) = (any_lang(), any_script(), any_region());
    let (lb, sb, rgb) = (any_lang(), any_script(), any_region());
    let spec = fieldwise(la, sa, rga, &None, lb, sb, rgb, &None);
    let a = LanguageIdentifier::from_raw_parts_unchecked(la, sa, rga, None);
    let b = LanguageIdentifier::from_raw_parts_unchecked(lb, sb, rgb, None);
    assert!(a.cmp(&b) == spec);
    assert!(a.partial_cmp(&b) == Some(spec));
    assert!(b.cmp(&a) == spec.reverse());
    assert!((a == b) == (spec == Ordering::Equal));
    assert!((a == b) == (la == lb && sa == sb && rga == rgb));
    assert!((a < b) == (spec == Ordering::Less) && (a <= b) == (spec != Ordering::Greater));
    // an absent subtag sorts first
    if la.is_empty() && !lb.is_empty() { assert!(a < b); }
    if la == lb && sa.is_none() && sb.is_some() { assert!(a < b); }
    if la == lb && sa == sb && rga.is_none() && rgb.is_some() { assert!(a < b); }
    kani::cover!(spec == Ordering::Less && la == lb && sa == sb);
    kani::cover!(a == b && sa.is_some());
}

/// ... and the variant lists alone (same language / script / region on both sides): the variants decide last, by the
/// lexicographic order of the lists with None first
#[kani::proof]
#[kani::unwind(10)]
fn lid_ord_variants_only() {
    let (l, s, rg) = (any_lang(), any_script(), any_region());
    let (va, vb) = (any_variants(), any_variants());
    let spec = va.cmp(&vb);
    let veq = va == vb;
    let a = LanguageIdentifier::from_raw_parts_unchecked(l, s, rg, va);
    let b = LanguageIdentifier::from_raw_parts_unchecked(l, s, rg, vb);
    assert!(a.cmp(&b) == spec);
    assert!(a.partial_cmp(&b) == Some(spec));
    assert!(b.cmp(&a) == spec.reverse());
    assert!((a == b) == veq);
    assert!((a == b) == (spec == Ordering::Equal));
    kani::cover!(spec == Ordering::Less);
    kani::cover!(a == b);
}

/// equal values hash equally (any Hasher is fed the same byte sequence: checked with a folding Hasher) and compare Equal;
/// language / script / region with no variants ...
#[kani::proof]
#[kani::unwind(10)]
fn lid_eq_implies_same_hash_no_variants() {
    let (la, sa, rga) = (any_lang(), any_script(), any_region());
    let (lb, sb, rgb) = (any_lang(), any_script(), any_region());
    let a = LanguageIdentifier::from_raw_parts_unchecked(la, sa, rga, None);
    let b = LanguageIdentifier::from_raw_parts_unchecked(lb, sb, rgb, None);
    if a == b {
        assert!(fold_hash(&a) == fold_hash(&b));
        assert!(a.cmp(&b) == Ordering::Equal);
    }
    kani::cover!(a == b);
}

/// ... and the variant field (every representation: None, Some([]), one or two variants) with the same language / script / region
#[kani::proof]
#[kani::unwind(10)]
fn lid_eq_implies_same_hash_variants() {
    let (l, s, rg) = (any_lang(), any_script(), any_region());
    let a = LanguageIdentifier::from_raw_parts_unchecked(l, s, rg, any_variants());
    let b = LanguageIdentifier::from_raw_parts_unchecked(l, s, rg, any_variants());
    if a == b {
        assert!(fold_hash(&a) == fold_hash(&b));
        assert!(a.cmp(&b) == Ordering::Equal);
    }
    kani::cover!(a == b);
}

/// quick-tier slice of the two harnesses above: every REPRESENTATION of a short variant list (None, Some([]), Some([a])) on both sides:
/// equal values hash equally
fn any_variants1() -> Option<Box<[Variant]>> {
    let n: u8 = kani::any();
    let a = unsafe { Variant::from_raw_unchecked(kani::any()) };
    match n % 3 { 0 => None, 1 => Some(vec![].into_boxed_slice()), _ => Some(vec![a].into_boxed_slice()) }
}
#[kani::proof]
#[kani::unwind(10)]
fn lid_eq_hash_variants_le1() {
    let (l, s, rg) = (any_lang(), any_script(), any_region());
    let a = LanguageIdentifier::from_raw_parts_unchecked(l, s, rg, any_variants1());
    let b = LanguageIdentifier::from_raw_parts_unchecked(l, s, rg, any_variants1());
    if a == b { assert!(fold_hash(&a) == fold_hash(&b)); }
    kani::cover!(a == b);
}

/// subtag level: equal subtags hash equally
#[kani::proof]
#[kani::unwind(10)]
fn subtag_eq_implies_same_hash() {
    let (a, b) = (any_lang(), any_lang());
    if a == b { assert!(fold_hash(&a) == fold_hash(&b)); }
    let (a, b) = (any_script(), any_script());
    if a == b { assert!(fold_hash(&a) == fold_hash(&b)); }
    let (a, b) = (any_region(), any_region());
    if a == b { assert!(fold_hash(&a) == fold_hash(&b)); }
    let a = unsafe { Variant::from_raw_unchecked(kani::any()) };
    let b = unsafe { Variant::from_raw_unchecked(kani::any()) };
    if a == b { assert!(fold_hash(&a) == fold_hash(&b)); }
}
