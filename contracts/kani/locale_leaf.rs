// U-XLEAF (crate root of unic-locale-impl) — ExtensionType::from_byte for all 256 bytes.
#![allow(dead_code, unused_imports)]
use crate::extensions::ExtensionType;
use crate::parser::ParserError;

#[allow(dead_code, unused_parens)]
mod preds {
    //@PREDS@
}
use preds::*;

#[kani::proof]
fn leaf_extension_type_from_byte() {
    let b: u8 = kani::any();
    let c = x_lower_b(b);
    let r = ExtensionType::from_byte(b);
    if c == b'u' { assert!(r == Ok(ExtensionType::Unicode)); }
    else if c == b't' { assert!(r == Ok(ExtensionType::Transform)); }
    else if c == b'x' { assert!(r == Ok(ExtensionType::Private)); }
    else if x_alnum(c) { assert!(r == Ok(ExtensionType::Other(c as char))); }
    else { assert!(r == Err(ParserError::InvalidExtension)); }
}

/// derived Default of the extension containers is the empty value (assumed on the Verus side)
#[kani::proof]
#[kani::unwind(4)]
fn default_is_empty() {
    let m = crate::extensions::ExtensionsMap::default();
    assert!(m.is_empty());
    assert!(m.unicode.is_empty());
    assert!(m.transform.is_empty());
    assert!(m.transform.tlang().is_none());
    assert!(m.private.is_empty());
    assert!(m.other.is_empty());
}

const N: usize = 9;
/// TinyAsciiStr: `==` is equality of the text, derived `Ord` is byte-wise lexicographic order of the text
/// (what axiom_text_injective / axiom_tiny_ord assume on the Verus side)
#[kani::proof]
#[kani::unwind(11)]
fn tinystr8_eq_ord_is_text() {
    let a: [u8; N] = kani::any();
    let b: [u8; N] = kani::any();
    let la: usize = kani::any();
    let lb: usize = kani::any();
    kani::assume(la <= N && lb <= N);
    if let (Ok(x), Ok(y)) = (tinystr::TinyStr8::from_bytes(&a[..la]), tinystr::TinyStr8::from_bytes(&b[..lb])) {
        assert!(x_eq_bytes(x.as_bytes(), &a[..la]));
        assert!((x == y) == x_eq_bytes(x.as_bytes(), y.as_bytes()));
        assert!((x <= y) == x_lex_le(x.as_bytes(), y.as_bytes()));
        assert!((x.cmp(&y) == std::cmp::Ordering::Equal) == (x == y));
        kani::cover!(x < y);
    }
}
#[kani::proof]
#[kani::unwind(7)]
fn tinystr4_eq_ord_is_text() {
    let a: [u8; 5] = kani::any();
    let b: [u8; 5] = kani::any();
    let la: usize = kani::any();
    let lb: usize = kani::any();
    kani::assume(la <= 5 && lb <= 5);
    if let (Ok(x), Ok(y)) = (tinystr::TinyStr4::from_bytes(&a[..la]), tinystr::TinyStr4::from_bytes(&b[..lb])) {
        assert!(x_eq_bytes(x.as_bytes(), &a[..la]));
        assert!((x == y) == x_eq_bytes(x.as_bytes(), y.as_bytes()));
        assert!((x <= y) == x_lex_le(x.as_bytes(), y.as_bytes()));
        assert!((x.cmp(&y) == std::cmp::Ordering::Equal) == (x == y));
        kani::cover!(x < y);
    }
}
