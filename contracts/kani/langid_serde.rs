// U-SERDE — the serde impls of the REAL crate (feature `serde`) against mock Serializer / Deserializers (C19).
// Callees are abstracted by their contracts: Display::fmt of LanguageIdentifier (C04: writes the canonical string) and
// parse_language_identifier_from_iter (C02) are replaced by deterministic oracles, so what is proved here is exactly the
// glue: serialize hands serialize_str the to_string() text; deserialize of a string is the parser's verdict on that very
// string (same bytes, same `allow_extension = false`), value and all; every non-string kind is an error; nothing panics.
#![allow(dead_code, unused_imports, unused_variables, static_mut_refs)]
use crate::parser::ParserError;
use crate::subtags::{Language, Region, Script};
use crate::LanguageIdentifier;
use serde::de::{self, Deserialize, Deserializer, Visitor};
use serde::ser::{self, Impossible, Serialize, Serializer};
use std::iter::Peekable;

// ---- a minimal error type for both directions ------------------------------------------------------------------
#[derive(Debug)]
struct MockError;
impl std::fmt::Display for MockError {
    fn fmt(&self, f: &mut std::fmt::Formatter<'_>) -> std::fmt::Result { Ok(()) }
}
impl std::error::Error for MockError {}
impl ser::Error for MockError { fn custom<T: std::fmt::Display>(_msg: T) -> Self { MockError } }
impl de::Error for MockError { fn custom<T: std::fmt::Display>(_msg: T) -> Self { MockError } }

// ---- Serializer that records the string it is given; every other method is a failure --------------------------
static mut SER_CALLS: u32 = 0;
static mut SER_LEN: usize = 0;
static mut SER_BUF: [u8; 8] = [0; 8];
struct MockSer;
macro_rules! unexpected { ($($name:ident($($t:ty),*) -> $r:ty;)*) => { $( fn $name(self $(, _: $t)*) -> Result<$r, MockError> { assert!(false); Err(MockError) } )* } }
impl Serializer for MockSer {
    type Ok = ();
    type Error = MockError;
    type SerializeSeq = Impossible<(), MockError>;
    type SerializeTuple = Impossible<(), MockError>;
    type SerializeTupleStruct = Impossible<(), MockError>;
    type SerializeTupleVariant = Impossible<(), MockError>;
    type SerializeMap = Impossible<(), MockError>;
    type SerializeStruct = Impossible<(), MockError>;
    type SerializeStructVariant = Impossible<(), MockError>;
    fn serialize_str(self, v: &str) -> Result<(), MockError> {
        unsafe {
            SER_CALLS += 1;
            SER_LEN = v.len();
            let b = v.as_bytes();
            let mut i = 0;
            while i < b.len() && i < 8 { SER_BUF[i] = b[i]; i += 1; }
        }
        Ok(())
    }
    unexpected! {
        serialize_bool(bool) -> (); serialize_i8(i8) -> (); serialize_i16(i16) -> (); serialize_i32(i32) -> (); serialize_i64(i64) -> ();
        serialize_u8(u8) -> (); serialize_u16(u16) -> (); serialize_u32(u32) -> (); serialize_u64(u64) -> ();
        serialize_f32(f32) -> (); serialize_f64(f64) -> (); serialize_char(char) -> (); serialize_bytes(&[u8]) -> ();
        serialize_none() -> (); serialize_unit() -> (); serialize_unit_struct(&'static str) -> ();
        serialize_unit_variant(&'static str, u32, &'static str) -> ();
        serialize_seq(Option<usize>) -> Impossible<(), MockError>; serialize_tuple(usize) -> Impossible<(), MockError>;
        serialize_tuple_struct(&'static str, usize) -> Impossible<(), MockError>;
        serialize_tuple_variant(&'static str, u32, &'static str, usize) -> Impossible<(), MockError>;
        serialize_map(Option<usize>) -> Impossible<(), MockError>; serialize_struct(&'static str, usize) -> Impossible<(), MockError>;
        serialize_struct_variant(&'static str, u32, &'static str, usize) -> Impossible<(), MockError>;
    }
    fn serialize_some<T: ?Sized + Serialize>(self, _: &T) -> Result<(), MockError> { assert!(false); Err(MockError) }
    fn serialize_newtype_struct<T: ?Sized + Serialize>(self, _: &'static str, _: &T) -> Result<(), MockError> { assert!(false); Err(MockError) }
    fn serialize_newtype_variant<T: ?Sized + Serialize>(self, _: &'static str, _: u32, _: &'static str, _: &T) -> Result<(), MockError> { assert!(false); Err(MockError) }
}

// ---- oracle for Display::fmt of LanguageIdentifier: some fixed text of <= 8 bytes (contract: C04) -----------------
static mut FMT_SET: bool = false;
static mut FMT_LEN: usize = 0;
static mut FMT_BUF: [u8; 8] = [0; 8];
fn fmt_oracle(_li: &LanguageIdentifier, f: &mut std::fmt::Formatter<'_>) -> std::fmt::Result {
    unsafe {
        if !FMT_SET {
            FMT_LEN = kani::any();
            kani::assume(FMT_LEN <= 8);
            let mut i = 0;
            while i < 8 { let c: u8 = kani::any(); kani::assume(c < 0x80); FMT_BUF[i] = c; i += 1; }
            FMT_SET = true;
        }
        f.write_str(std::str::from_utf8_unchecked(&FMT_BUF[..FMT_LEN]))
    }
}
/// type invariant of a TinyAsciiStr in integer form: ASCII bytes, at least one, no byte after the first zero byte
fn tiny8(v: u64) -> bool {
    let b = v.to_le_bytes();
    let mut i = 0; let mut seen0 = false; let mut ok = b[0] != 0;
    while i < 8 { if b[i] >= 0x80 || (seen0 && b[i] != 0) { ok = false; } if b[i] == 0 { seen0 = true; } i += 1; }
    ok
}
fn tiny4(v: u32) -> bool {
    let b = v.to_le_bytes();
    let mut i = 0; let mut seen0 = false; let mut ok = b[0] != 0;
    while i < 4 { if b[i] >= 0x80 || (seen0 && b[i] != 0) { ok = false; } if b[i] == 0 { seen0 = true; } i += 1; }
    ok
}
fn any_lid() -> LanguageIdentifier {
    let l = if kani::any() { Language::default() } else { let v: u64 = kani::any(); kani::assume(tiny8(v) && v != 0x646e75); unsafe { Language::from_raw_unchecked(v) } };
    let s = if kani::any() { None } else { let v: u32 = kani::any(); kani::assume(tiny4(v)); Some(unsafe { Script::from_raw_unchecked(v) }) };
    let r = if kani::any() { None } else { let v: u32 = kani::any(); kani::assume(tiny4(v)); Some(unsafe { Region::from_raw_unchecked(v) }) };
    LanguageIdentifier::from_raw_parts_unchecked(l, s, r, None)
}

/// serialize(x) calls serialize_str exactly once, with exactly the text Display::fmt writes for x (= x.to_string()),
/// and calls nothing else (every other Serializer method asserts false)
#[kani::proof]
#[kani::unwind(10)]
#[kani::stub(<LanguageIdentifier as std::fmt::Display>::fmt, fmt_oracle)]
fn serialize_is_to_string() {
    let li = any_lid();
    let r = li.serialize(MockSer);
    assert!(r.is_ok());
    unsafe {
        assert!(FMT_SET);
        assert!(SER_CALLS == 1);
        assert!(SER_LEN == FMT_LEN);
        let mut i = 0;
        while i < FMT_LEN { assert!(SER_BUF[i] == FMT_BUF[i]); i += 1; }
    }
}

// ---- oracle for the parser (contract: C02): a deterministic function of (first subtag, allow_extension) ---------
static mut P_N: usize = 0;
static mut P_KEY: [(usize, usize, bool); 2] = [(0, 0, false); 2];
static mut P_OK: [bool; 2] = [false; 2];
static mut P_VAL: [(Option<u64>, Option<u32>, Option<u32>); 2] = [(None, None, None); 2];
fn parser_oracle<'a>(iter: &mut Peekable<impl Iterator<Item = &'a [u8]>>, allow_extension: bool) -> Result<LanguageIdentifier, ParserError> {
    let first = iter.peek().map(|s| (s.as_ptr() as usize, s.len())).unwrap_or((0, 0));
    let key = (first.0, first.1, allow_extension);
    unsafe {
        let mut k = 0;
        let mut hit = 2;
        while k < P_N { if P_KEY[k] == key { hit = k; } k += 1; }
        if hit == 2 {
            assert!(P_N < 2);
            hit = P_N;
            P_KEY[hit] = key;
            P_OK[hit] = kani::any();
            let l: Option<u64> = if kani::any() { None } else { let v: u64 = kani::any(); kani::assume(v & 0x8080_8080_8080_8080 == 0 && v != 0x646e75); Some(v) };
            let s: Option<u32> = if kani::any() { None } else { let v: u32 = kani::any(); kani::assume(v & 0x8080_8080 == 0); Some(v) };
            let r: Option<u32> = if kani::any() { None } else { let v: u32 = kani::any(); kani::assume(v & 0x8080_8080 == 0); Some(v) };
            P_VAL[hit] = (l, s, r);
            P_N += 1;
        }
        if P_OK[hit] {
            let (l, s, r) = P_VAL[hit];
            Ok(LanguageIdentifier::from_raw_parts_unchecked(
                l.map_or(Language::default(), |v| Language::from_raw_unchecked(v)),
                s.map(|v| Script::from_raw_unchecked(v)), r.map(|v| Region::from_raw_unchecked(v)), None))
        } else { Err(ParserError::InvalidSubtag) }
    }
}
fn raw(li: &LanguageIdentifier) -> (Option<u64>, Option<u32>, Option<u32>, bool) {
    (li.language.into(), li.script.map(|x| x.into()), li.region.map(|x| x.into()), li.variants().len() == 0)
}

// ---- Deserializers ----------------------------------------------------------------------------------------------
struct StrDe<'a>(&'a str);
#[derive(Clone, Copy)]
enum Kind { Bool, U64, I64, F64, Unit, None, Char, Bytes }
struct KindDe(Kind);
macro_rules! forward_all { ($($name:ident)*) => { $( fn $name<V: Visitor<'de>>(self, v: V) -> Result<V::Value, MockError> { self.deserialize_any(v) } )* } }
macro_rules! de_rest {
    () => {
        forward_all! { deserialize_bool deserialize_i8 deserialize_i16 deserialize_i32 deserialize_i64 deserialize_u8 deserialize_u16 deserialize_u32
            deserialize_u64 deserialize_f32 deserialize_f64 deserialize_char deserialize_str deserialize_string deserialize_bytes deserialize_byte_buf
            deserialize_option deserialize_unit deserialize_seq deserialize_map deserialize_identifier deserialize_ignored_any }
        fn deserialize_unit_struct<V: Visitor<'de>>(self, _: &'static str, v: V) -> Result<V::Value, MockError> { self.deserialize_any(v) }
        fn deserialize_newtype_struct<V: Visitor<'de>>(self, _: &'static str, v: V) -> Result<V::Value, MockError> { self.deserialize_any(v) }
        fn deserialize_tuple<V: Visitor<'de>>(self, _: usize, v: V) -> Result<V::Value, MockError> { self.deserialize_any(v) }
        fn deserialize_tuple_struct<V: Visitor<'de>>(self, _: &'static str, _: usize, v: V) -> Result<V::Value, MockError> { self.deserialize_any(v) }
        fn deserialize_struct<V: Visitor<'de>>(self, _: &'static str, _: &'static [&'static str], v: V) -> Result<V::Value, MockError> { self.deserialize_any(v) }
        fn deserialize_enum<V: Visitor<'de>>(self, _: &'static str, _: &'static [&'static str], v: V) -> Result<V::Value, MockError> { self.deserialize_any(v) }
    };
}
impl<'de, 'a> Deserializer<'de> for StrDe<'a> {
    type Error = MockError;
    fn deserialize_any<V: Visitor<'de>>(self, v: V) -> Result<V::Value, MockError> { v.visit_str(self.0) }
    de_rest!();
}
impl<'de> Deserializer<'de> for KindDe {
    type Error = MockError;
    fn deserialize_any<V: Visitor<'de>>(self, v: V) -> Result<V::Value, MockError> {
        match self.0 {
            Kind::Bool => v.visit_bool(kani::any()),
            Kind::U64 => v.visit_u64(kani::any()),
            Kind::I64 => v.visit_i64(kani::any()),
            Kind::F64 => v.visit_f64(1.5),
            Kind::Unit => v.visit_unit(),
            Kind::None => v.visit_none(),
            Kind::Char => v.visit_char('e'),
            Kind::Bytes => v.visit_bytes(b"en"),
        }
    }
    de_rest!();
}

/// deserialising a string succeeds iff parsing that string succeeds, with an equal result
#[kani::proof]
#[kani::unwind(10)]
#[kani::stub(crate::parser::parse_language_identifier_from_iter, parser_oracle)]
fn deserialize_str_is_parse() {
    let buf: [u8; 4] = kani::any();
    let n: usize = kani::any();
    kani::assume(n <= 4);
    let mut i = 0;
    while i < 4 { kani::assume(buf[i] < 0x80); i += 1; }
    let s = unsafe { std::str::from_utf8_unchecked(&buf[..n]) };
    let want = LanguageIdentifier::from_bytes(s.as_bytes());
    let got = LanguageIdentifier::deserialize(StrDe(s));
    match (&want, &got) {
        (Ok(a), Ok(b)) => assert!(raw(a) == raw(b)),
        (Err(_), Err(_)) => {}
        _ => assert!(false),
    }
    kani::cover!(got.is_ok());
    kani::cover!(got.is_err());
}

/// ... and the glue does not depend on the LENGTH of the string either: every length up to 64 bytes (the content is fixed, the glue
/// never looks at it and the parser is abstracted by its contract), so a length limit / fast path in the glue is noticed
static LONG: [u8; 64] = [b'a'; 64];
#[kani::proof]
#[kani::unwind(67)]
#[kani::stub(crate::parser::parse_language_identifier_from_iter, parser_oracle)]
fn deserialize_long_str_is_parse() {
    let n: usize = kani::any();
    kani::assume(n <= 64);
    let s = unsafe { std::str::from_utf8_unchecked(&LONG[..n]) };
    let want = LanguageIdentifier::from_bytes(s.as_bytes());
    let got = LanguageIdentifier::deserialize(StrDe(s));
    match (&want, &got) {
        (Ok(a), Ok(b)) => assert!(raw(a) == raw(b)),
        (Err(_), Err(_)) => {}
        _ => assert!(false),
    }
    kani::cover!(got.is_ok() && n > 40);
    kani::cover!(got.is_err());
}

/// every non-string kind is rejected with an error; no panic is reachable
#[kani::proof]
#[kani::unwind(10)]
fn deserialize_non_string_is_err() {
    let kinds = [Kind::Bool, Kind::U64, Kind::I64, Kind::F64, Kind::Unit, Kind::None, Kind::Char, Kind::Bytes];
    let k: usize = kani::any();
    kani::assume(k < kinds.len());
    assert!(LanguageIdentifier::deserialize(KindDe(kinds[k])).is_err());
}


/// C20 / C02 (built with every optional feature): FromStr is from_bytes on the very same bytes (same verdict, same value)
#[kani::proof]
#[kani::unwind(10)]
#[kani::stub(crate::parser::parse_language_identifier_from_iter, parser_oracle)]
fn from_str_is_from_bytes() {
    let buf: [u8; 4] = kani::any();
    let n: usize = kani::any();
    kani::assume(n <= 4);
    let mut i = 0;
    while i < 4 { kani::assume(buf[i] < 0x80); i += 1; }
    let s = unsafe { std::str::from_utf8_unchecked(&buf[..n]) };
    let want = LanguageIdentifier::from_bytes(s.as_bytes());
    let got: Result<LanguageIdentifier, _> = s.parse();
    match (&want, &got) {
        (Ok(a), Ok(b)) => assert!(raw(a) == raw(b)),
        (Err(_), Err(_)) => {}
        _ => assert!(false),
    }
    kani::cover!(got.is_ok());
}
