// U-MATCH — Kani harnesses for the wildcard matching of C11 on the REAL code of unic-langid-impl.
// Identifiers are built with the raw (unchecked) constructor from arbitrary integers: matches() only uses
// `==`, `is_none` and `is_empty` on its fields, so every representable field value is covered.
#![allow(dead_code, unused_imports)]
use crate::subtags::{Language, Region, Script, Variant};
use crate::LanguageIdentifier;

#[allow(dead_code, unused_parens)]
mod preds {
    //@PREDS@
}

fn any_lang() -> Language {
    if kani::any() { Language::default() } else { unsafe { Language::from_raw_unchecked(kani::any()) } }
}
fn any_script() -> Option<Script> {
    if kani::any() { None } else { Some(unsafe { Script::from_raw_unchecked(kani::any()) }) }
}
fn any_region() -> Option<Region> {
    if kani::any() { None } else { Some(unsafe { Region::from_raw_unchecked(kani::any()) }) }
}
/// variant lists of length 0..=2 (None, Some([]), Some([a]), Some([a,b])) — BOUND in list length
fn any_variants() -> Option<Box<[Variant]>> {
    let n: u8 = kani::any();
    let a = unsafe { Variant::from_raw_unchecked(kani::any()) };
    let b = unsafe { Variant::from_raw_unchecked(kani::any()) };
    match n % 4 {
        0 => None,
        1 => Some(vec![].into_boxed_slice()),
        2 => Some(vec![a].into_boxed_slice()),
        _ => Some(vec![a, b].into_boxed_slice()),
    }
}
fn vempty(v: &Option<Box<[Variant]>>) -> bool { match v { None => true, Some(b) => b.len() == 0 } }
fn veq(a: &Option<Box<[Variant]>>, b: &Option<Box<[Variant]>>) -> bool {
    match (a, b) {
        (None, None) => true,
        (Some(x), Some(y)) => x.len() == y.len() && (x.len() < 1 || x[0] == y[0]) && (x.len() < 2 || x[1] == y[1]),
        _ => false,
    }
}

#[kani::proof]
fn match_language() {
    let (a, b) = (any_lang(), any_lang());
    let (ra, rb): (bool, bool) = (kani::any(), kani::any());
    let spec = (ra && a.is_empty()) || (rb && b.is_empty()) || a == b;
    assert!(a.matches(b, ra, rb) == spec);
    assert!(a.matches(&b, ra, rb) == spec);
}

#[kani::proof]
#[kani::unwind(10)]
fn match_langid_formula() {
    let (la, sa, rga, va) = (any_lang(), any_script(), any_region(), any_variants());
    let (lb, sb, rgb, vb) = (any_lang(), any_script(), any_region(), any_variants());
    let (ra, rb): (bool, bool) = (kani::any(), kani::any());
    let spec = ((ra && la.is_empty()) || (rb && lb.is_empty()) || la == lb)
        && ((ra && sa.is_none()) || (rb && sb.is_none()) || sa == sb)
        && ((ra && rga.is_none()) || (rb && rgb.is_none()) || rga == rgb)
        && ((ra && vempty(&va)) || (rb && vempty(&vb)) || veq(&va, &vb));
    let a = LanguageIdentifier::from_raw_parts_unchecked(la, sa, rga, va);
    let b = LanguageIdentifier::from_raw_parts_unchecked(lb, sb, rgb, vb);
    let got = a.matches(&b, ra, rb);
    assert!(got == spec);
    // consequences stated in C11
    if !ra && !rb { assert!(got == (a == b)); }
    assert!(b.matches(&a, rb, ra) == got);
    assert!(a.matches(&a, ra, rb));
    if got { assert!(a.matches(&b, true, rb) && a.matches(&b, ra, true)); }
    kani::cover!(got && !(a == b));
}

/// quick-tier slices of the formula: language/script/region with no variants on either side
#[kani::proof]
#[kani::unwind(10)]
fn match_fields_no_variants() {
    let (la, sa, rga) = (any_lang(), any_script(), any_region());
    let (lb, sb, rgb) = (any_lang(), any_script(), any_region());
    let (ra, rb): (bool, bool) = (kani::any(), kani::any());
    let spec = ((ra && la.is_empty()) || (rb && lb.is_empty()) || la == lb)
        && ((ra && sa.is_none()) || (rb && sb.is_none()) || sa == sb)
        && ((ra && rga.is_none()) || (rb && rgb.is_none()) || rga == rgb);
    let a = LanguageIdentifier::from_raw_parts_unchecked(la, sa, rga, None);
    let b = LanguageIdentifier::from_raw_parts_unchecked(lb, sb, rgb, None);
    let got = a.matches(&b, ra, rb);
    assert!(got == spec);
    if !ra && !rb { assert!(got == (a == b)); }
    assert!(b.matches(&a, rb, ra) == got);
    kani::cover!(got && !(a == b));
}

/// ... and the variant lists alone (same language/script/region on both sides)
#[kani::proof]
#[kani::unwind(10)]
fn match_variants_only() {
    let (l, s, rg) = (any_lang(), any_script(), any_region());
    let (va, vb) = (any_variants(), any_variants());
    let (ra, rb): (bool, bool) = (kani::any(), kani::any());
    let spec = (ra && vempty(&va)) || (rb && vempty(&vb)) || veq(&va, &vb);
    let a = LanguageIdentifier::from_raw_parts_unchecked(l, s, rg, va);
    let b = LanguageIdentifier::from_raw_parts_unchecked(l, s, rg, vb);
    let got = a.matches(&b, ra, rb);
    assert!(got == spec);
    assert!(b.matches(&a, rb, ra) == got);
    kani::cover!(got && !(a == b));
}

/// AsRef impls used by matches() are the identity (assumed on the Verus side)
#[kani::proof]
fn as_ref_is_identity() {
    let a = LanguageIdentifier::from_raw_parts_unchecked(any_lang(), any_script(), any_region(), None);
    let r: &LanguageIdentifier = a.as_ref();
    assert!(std::ptr::eq(r, &a));
}
