// U-DIR — character_direction() of the REAL crate against the CLDR layout data (C14) and the four direction
// constants against their re-derivation (C18).  EXPECTED_* are regenerated on every run by vf/gen.py from
// data/cldr-misc-full/main/*/layout.json.  The same file is used for both feature configurations.
#![allow(dead_code, unused_imports, unused_parens, static_mut_refs)]
use crate::layout_table;
use crate::subtags::{Language, Region, Script, Variant};
use crate::{CharacterDirection, LanguageIdentifier};

mod expected {
    //@GEN@
}
use expected::*;

fn any_u64() -> u64 { let v: u64 = kani::any(); kani::assume(v & 0x8080_8080_8080_8080 == 0); v }
fn any_u32() -> u32 { let v: u32 = kani::any(); kani::assume(v & 0x8080_8080 == 0); v }
fn any_lang() -> Language {
    if kani::any() { Language::default() } else { let v = any_u64(); kani::assume(v != 0x646e75); unsafe { Language::from_raw_unchecked(v) } }
}
fn any_script() -> Option<Script> { if kani::any() { None } else { Some(unsafe { Script::from_raw_unchecked(any_u32()) }) } }
fn any_region() -> Option<Region> { if kani::any() { None } else { Some(unsafe { Region::from_raw_unchecked(any_u32()) }) } }
/// variant lists: none, or one arbitrary variant (the function never reads the field; C14: variants never matter)
fn any_variants() -> Option<Box<[Variant]>> {
    if kani::any() { None } else { Some(vec![unsafe { Variant::from_raw_unchecked(any_u64()) }].into_boxed_slice()) }
}
fn lraw(l: Language) -> Option<u64> { l.into() }
fn dir_code(d: CharacterDirection) -> u8 { match d { CharacterDirection::LTR => 0, CharacterDirection::RTL => 1, CharacterDirection::TTB => 2 } }

fn has32(t: &[u32], x: u32) -> bool { let mut i = 0; while i < t.len() { if t[i] == x { return true; } i += 1; } false }
fn has64(t: &[u64], x: u64) -> bool { let mut i = 0; while i < t.len() { if t[i] == x { return true; } i += 1; } false }
fn same_set32(a: &[u32], b: &[u32]) -> bool {
    if a.len() != b.len() { return false; }
    let mut i = 0;
    while i < a.len() {
        if !has32(b, a[i]) || !has32(a, b[i]) { return false; }
        let mut j = i + 1;
        while j < a.len() { if a[j] == a[i] { return false; } j += 1; } // no duplicate
        i += 1;
    }
    true
}
fn same_set64(a: &[u64], b: &[u64]) -> bool {
    if a.len() != b.len() { return false; }
    let mut i = 0;
    while i < a.len() {
        if !has64(b, a[i]) || !has64(a, b[i]) { return false; }
        let mut j = i + 1;
        while j < a.len() { if a[j] == a[i] { return false; } j += 1; }
        i += 1;
    }
    true
}

/// C18: the direction constants contain exactly the scripts / right-to-left languages derivable from the layout files
#[kani::proof]
#[kani::unwind(32)]
fn layout_tables_eq_cldr() {
    assert!(same_set32(&layout_table::SCRIPTS_CHARACTER_DIRECTION_LTR, &EXPECTED_SCRIPTS_LTR));
    assert!(same_set32(&layout_table::SCRIPTS_CHARACTER_DIRECTION_RTL, &EXPECTED_SCRIPTS_RTL));
    assert!(same_set32(&layout_table::SCRIPTS_CHARACTER_DIRECTION_TTB, &EXPECTED_SCRIPTS_TTB));
    assert!(same_set64(&layout_table::LANGS_CHARACTER_DIRECTION_RTL, &EXPECTED_LANGS_RTL));
}

/// the direction model of C14 over the CLDR-derived sets: a listed script decides on its own; otherwise a language CLDR
/// lists as right-to-left is RTL, refined (likely-subtags enabled) to LTR when its likely script is a listed LTR script;
/// everything else is LTR.  `likely_script` = the script of maximize(language, -, region), None without the feature.
fn dir_spec(l: Option<u64>, s: Option<u32>, likely_script: Option<u32>) -> u8 {
    if let Some(s) = s {
        if has32(&EXPECTED_SCRIPTS_LTR, s) { return 0; }
        if has32(&EXPECTED_SCRIPTS_RTL, s) { return 1; }
        if has32(&EXPECTED_SCRIPTS_TTB, s) { return 2; }
    }
    match l {
        Some(l) if has64(&EXPECTED_LANGS_RTL, l) => {
            match likely_script { Some(ls) if has32(&EXPECTED_SCRIPTS_LTR, ls) => 0, _ => 1 }
        }
        _ => 0,
    }
}

fn row_langid(l: u64, s: u32, r: u32) -> LanguageIdentifier {
    LanguageIdentifier::from_raw_parts_unchecked(
        if l == 0 { Language::default() } else { unsafe { Language::from_raw_unchecked(l) } },
        if s == 0 { None } else { Some(unsafe { Script::from_raw_unchecked(s) }) },
        if r == 0 { None } else { Some(unsafe { Region::from_raw_unchecked(r) }) }, None)
}
fn row_needs_likely(l: u64, s: u32) -> bool { s == 0 && has64(&EXPECTED_LANGS_RTL, l) }

#[cfg(not(feature = "likelysubtags"))]
mod off {
    use super::*;
    /// for ALL raw (language, script, region) and variant lists: character_direction() == the model (feature off)
    #[kani::proof]
    #[kani::unwind(32)]
    fn dir_is_model() {
        let (l, s, r, v) = (any_lang(), any_script(), any_region(), any_variants());
        let li = LanguageIdentifier::from_raw_parts_unchecked(l, s, r, v);
        let want = dir_spec(lraw(l), s.map(|x| x.into()), None);
        assert!(dir_code(li.character_direction()) == want);
        kani::cover!(want == 1 && s.is_none());
        kani::cover!(want == 2);
    }
    /// the 710 CLDR layout locales: without likely subtags the answer may differ from CLDR only for script-less
    /// identifiers of languages that CLDR lists with more than one direction
    #[kani::proof]
    #[kani::unwind(32)]
    fn dir_cldr_rows() {
        assert!(EXPECTED_LAYOUT_ROWS.len() >= 700);
        let i: usize = kani::any();
        kani::assume(i < EXPECTED_LAYOUT_ROWS.len());
        let (l, s, r, d) = EXPECTED_LAYOUT_ROWS[i];
        let got = dir_code(row_langid(l, s, r).character_direction());
        assert!(got == d || (s == 0 && has64(&EXPECTED_LANGS_MULTI_DIR, l)));
        kani::cover!(got != d);
    }
}

#[cfg(feature = "likelysubtags")]
mod on {
    use super::*;
    use crate::likelysubtags;
    // maximize is replaced by M: an arbitrary function with maximize's contract (C07) -- one call per query here
    static mut M_CALLED: bool = false;
    static mut M_ARG: (Option<u64>, Option<u32>, Option<u32>) = (None, None, None);
    static mut M_RES: Option<(u64, u32, u32)> = None;
    fn m_oracle(l: Language, s: Option<Script>, r: Option<Region>) -> Option<(Language, Option<Script>, Option<Region>)> {
        let key: (Option<u64>, Option<u32>, Option<u32>) = (l.into(), s.map(|x| x.into()), r.map(|x| x.into()));
        unsafe {
            if !(M_CALLED && M_ARG == key) {
                let full = key.0.is_some() && key.1.is_some() && key.2.is_some();
                let bare = key.0.is_none() && key.1.is_none() && key.2.is_none();
                M_RES = if full || bare || kani::any() { None } else {
                    Some((key.0.unwrap_or(any_u64()), key.1.unwrap_or(any_u32()), key.2.unwrap_or(any_u32())))
                };
                M_CALLED = true;
                M_ARG = key;
            }
            M_RES.map(|(a, b, c)| (Language::from_raw_unchecked(a), Some(Script::from_raw_unchecked(b)), Some(Region::from_raw_unchecked(c))))
        }
    }
    /// for ALL raw inputs: character_direction() == the model, with maximize abstracted by its contract
    #[kani::proof]
    #[kani::unwind(32)]
    #[kani::stub(likelysubtags::maximize, m_oracle)]
    fn dir_is_model() {
        let (l, s, r, v) = (any_lang(), any_script(), any_region(), any_variants());
        let li = LanguageIdentifier::from_raw_parts_unchecked(l, s, r, v);
        let likely = m_oracle(l, None, r).and_then(|t| t.1).map(|x| -> u32 { x.into() });
        let want = dir_spec(lraw(l), s.map(|x| x.into()), likely);
        assert!(dir_code(li.character_direction()) == want);
        kani::cover!(want == 1 && s.is_none());
        kani::cover!(want == 0 && s.is_none() && likely.is_some() && has64(&EXPECTED_LANGS_RTL, lraw(l).unwrap_or(0)));
    }
    fn m_forbidden(_l: Language, _s: Option<Script>, _r: Option<Region>) -> Option<(Language, Option<Script>, Option<Region>)> {
        assert!(false); // maximize must not be consulted for these rows
        None
    }
    /// the CLDR layout locales that have a script or whose language CLDR never lists as right-to-left (all but 72 of the
    /// 710): maximize is not consulted (the stub asserts false) and the direction equals CLDR's characterOrder
    #[kani::proof]
    #[kani::unwind(32)]
    #[kani::stub(likelysubtags::maximize, m_forbidden)]
    fn dir_cldr_rows_direct() {
        assert!(EXPECTED_LAYOUT_ROWS.len() >= 700);
        let i: usize = kani::any();
        kani::assume(i < EXPECTED_LAYOUT_ROWS.len());
        let (l, s, r, d) = EXPECTED_LAYOUT_ROWS[i];
        kani::assume(!row_needs_likely(l, s));
        assert!(dir_code(row_langid(l, s, r).character_direction()) == d);
        kani::cover!(d == 1);
        kani::cover!(d == 2);
    }
    /// the remaining 72 (script-less identifiers of right-to-left languages), decided modularly:
    ///  (a) dir_is_model: character_direction() == dir_spec(language, script, script of maximize(language, -, region)) for ALL inputs;
    ///  (b) here: dir_spec with the likely script that CLDR's likelySubtags data gives for the row equals CLDR's characterOrder;
    ///  (c) dir_cldr_rows_likely_real (thorough tier): the real maximize on the real tables returns exactly that script for the row.
    #[kani::proof]
    #[kani::unwind(32)]
    fn dir_cldr_rows_likely_model() {
        assert!(EXPECTED_LAYOUT_ROWS_LIKELY.len() >= 60);
        let j: usize = kani::any();
        kani::assume(j < EXPECTED_LAYOUT_ROWS_LIKELY.len());
        let (l, s, _r, d, lk) = EXPECTED_LAYOUT_ROWS_LIKELY[j];
        assert!(s == 0 && row_needs_likely(l, s));
        assert!(dir_spec(Some(l), None, if lk == 0 { None } else { Some(lk) }) == d);
        kani::cover!(d == 0);
        kani::cover!(d == 1);
    }
    // binary_search_by_key by its ASSUMED contract on a strictly sorted slice (see langid_likely.rs; sortedness is U-TAB)
    struct Bs<T>(core::marker::PhantomData<T>);
    impl<T> Bs<T> {
        fn contract<'a, B: Ord, F: FnMut(&'a T) -> B>(s: &'a [T], b: &B, mut f: F) -> Result<usize, usize> {
            let n = s.len();
            let i: usize = kani::any();
            kani::assume(i <= n);
            if i < n && f(&s[i]) == *b { return Ok(i); }
            kani::assume((i == 0 || f(&s[i - 1]) < *b) && (i == n || f(&s[i]) > *b));
            Err(i)
        }
    }
    #[kani::proof]
    #[kani::unwind(32)]
    #[kani::stub(<[(u64, u32, (std::option::Option<u64>, std::option::Option<u32>, std::option::Option<u32>))]>::binary_search_by_key, Bs::contract)]
    #[kani::stub(<[(u64, (std::option::Option<u64>, std::option::Option<u32>, std::option::Option<u32>))]>::binary_search_by_key, Bs::contract)]
    fn dir_cldr_rows_likely_real() {
        let j: usize = kani::any();
        kani::assume(j < EXPECTED_LAYOUT_ROWS_LIKELY.len());
        let (l, _s, r, d, lk) = EXPECTED_LAYOUT_ROWS_LIKELY[j];
        let lang = unsafe { Language::from_raw_unchecked(l) };
        let region = if r == 0 { None } else { Some(unsafe { Region::from_raw_unchecked(r) }) };
        let got: Option<u32> = likelysubtags::maximize(lang, None, region).and_then(|t| t.1).map(|x| x.into());
        assert!(got == if lk == 0 { None } else { Some(lk) });
        assert!(dir_code(row_langid(l, 0, r).character_direction()) == d);
    }
    #[kani::proof]
    #[kani::unwind(80)]
    fn dir_cldr_rows_split() {
        let i: usize = kani::any();
        kani::assume(i < EXPECTED_LAYOUT_ROWS.len());
        let row = EXPECTED_LAYOUT_ROWS[i];
        if row_needs_likely(row.0, row.1) {
            let mut j = 0; let mut found = false;
            while j < EXPECTED_LAYOUT_ROWS_LIKELY.len() { let e = EXPECTED_LAYOUT_ROWS_LIKELY[j]; if (e.0, e.1, e.2, e.3) == row { found = true; } j += 1; }
            assert!(found);
        }
    }
}
