// U-TAB — closed obligations over the six likely-subtags statics of the REAL crate (C18, C06(a)).
// Injected as a child of `likelysubtags` so that the private `tables` module is nameable.
// EXPECTED_* below are regenerated on every run from data/likelySubtags.json by vf/gen.py (an
// implementation independent of the repository's generator binary and parser).
// Every harness quantifies over ALL rows through one symbolic index: a complete decision, no bound.
#![allow(dead_code, unused_imports, unused_parens)]
use super::tables;
use crate::subtags::{Language, Region, Script};

mod expected {
    //@GEN@
}
use expected::*;

#[allow(dead_code, unused_parens)]
mod preds {
    //@PREDS@
}

type Val = (Option<u64>, Option<u32>, Option<u32>);

fn le_len8(v: u64) -> usize { let b = v.to_le_bytes(); let mut n = 0; while n < 8 && b[n] != 0 { n += 1; } n }
fn le_len4(v: u32) -> usize { let b = v.to_le_bytes(); let mut n = 0; while n < 4 && b[n] != 0 { n += 1; } n }

/// the integer is the little-endian, zero-padded ASCII text of a well-formed, canonically cased language subtag
fn wf_lang(v: u64) -> bool {
    let b = v.to_le_bytes();
    let n = le_len8(v);
    let mut k = n; let mut tail_zero = true;
    while k < 8 { if b[k] != 0 { tail_zero = false; } k += 1; }
    tail_zero && preds::x_is_language(&b[..n]) && preds::x_eq_lower(&b[..n], &b[..n])
}
fn wf_script(v: u32) -> bool {
    let b = v.to_le_bytes();
    let n = le_len4(v);
    n == 4 && preds::x_is_script(&b[..n]) && preds::x_eq_title(&b[..n], &b[..n])
}
fn wf_region(v: u32) -> bool {
    let b = v.to_le_bytes();
    let n = le_len4(v);
    let mut k = n; let mut tail_zero = true;
    while k < 4 { if b[k] != 0 { tail_zero = false; } k += 1; }
    tail_zero && preds::x_is_region(&b[..n]) && preds::x_eq_upper(&b[..n], &b[..n])
}
/// every value carries language, script and region, each well formed (what the unchecked constructors rely on)
fn wf_val(v: Val) -> bool {
    match v { (Some(l), Some(s), Some(r)) => wf_lang(l) && wf_script(s) && wf_region(r), _ => false }
}
const UND: u64 = 0x646e75; // "und"

macro_rules! eq_body {
    ($T:ident, $E:ident) => {{
        assert!(tables::$T.len() == $E.len());
        let i: usize = kani::any();
        kani::assume(i < tables::$T.len() && i < $E.len());
        assert!(tables::$T[i] == $E[i]);
    }};
}
macro_rules! sorted1_body {
    ($T:ident) => {{
        let i: usize = kani::any();
        kani::assume(i < tables::$T.len() - 1);
        // the order binary_search_by_key uses: Ord of the key
        assert!(tables::$T[i].0 < tables::$T[i + 1].0);
    }};
}
macro_rules! sorted2_body {
    ($T:ident) => {{
        let i: usize = kani::any();
        kani::assume(i < tables::$T.len() - 1);
        let (a, b) = (tables::$T[i], tables::$T[i + 1]);
        // the order binary_search_by_key uses: Ord of the (key, key) tuple of references
        assert!((&a.0, &a.1) < (&b.0, &b.1));
        assert!(a.0 < b.0 || (a.0 == b.0 && a.1 < b.1));
    }};
}
macro_rules! wf1_body {
    ($T:ident, $keywf:expr, $keeps:expr) => {{
        let i: usize = kani::any();
        kani::assume(i < tables::$T.len());
        let (k, v) = tables::$T[i];
        assert!(($keywf)(k));
        // every value carries language, script and region, each well formed
        assert!(wf_val(v));
        // the value keeps the key's subtag (C06/C07: every subtag that was given is kept)
        assert!(($keeps)(k, v));
    }};
}
macro_rules! wf2_body {
    ($T:ident, $keywf:expr, $keeps:expr) => {{
        let i: usize = kani::any();
        kani::assume(i < tables::$T.len());
        let (k1, k2, v) = tables::$T[i];
        assert!(($keywf)(k1, k2));
        assert!(wf_val(v));
        assert!(($keeps)(k1, k2, v));
    }};
}

// LANG_ONLY == CLDR, quick tier: the closed boolean `LANG_ONLY == EXPECTED_LANG_ONLY_FULL` is evaluated by rustc's compile-time
// evaluator (a `const` initialiser reading the real static) and the harness asserts the resulting constant; the thorough tier
// re-proves the same fact with CBMC alone (the 14 chunk obligations below).
const fn opt64_eq(a: Option<u64>, b: Option<u64>) -> bool { match (a, b) { (None, None) => true, (Some(x), Some(y)) => x == y, _ => false } }
const fn opt32_eq(a: Option<u32>, b: Option<u32>) -> bool { match (a, b) { (None, None) => true, (Some(x), Some(y)) => x == y, _ => false } }
const fn lang_only_rows_eq(a: &[(u64, Val)], b: &[(u64, Val)]) -> bool {
    if a.len() != b.len() { return false; }
    let mut i = 0;
    while i < a.len() {
        let (x, y) = (&a[i], &b[i]);
        if x.0 != y.0 || !opt64_eq((x.1).0, (y.1).0) || !opt32_eq((x.1).1, (y.1).1) || !opt32_eq((x.1).2, (y.1).2) { return false; }
        i += 1;
    }
    true
}
const LANG_ONLY_EQ_CLDR: bool = lang_only_rows_eq(&tables::LANG_ONLY, &EXPECTED_LANG_ONLY_FULL);
#[kani::proof]
fn lang_only_eq_cldr_ctfe() {
    assert!(LANG_ONLY_EQ_CLDR);
    assert!(tables::LANG_ONLY.len() == EXPECTED_LANG_ONLY_LEN);
}

// LANG_ONLY (7143 rows): two 7143-row arrays under one symbolic index exceed CBMC's reach (> 30 min), so vf/gen.py emits
// the CLDR side in 14 chunks of 512 rows; harness k compares rows [512k, 512k+len) of the real table with chunk k under
// a symbolic offset.  The chunk lengths add up to the table length (asserted in every harness), so every row is covered.
macro_rules! lang_only_chunk {
    ($k:expr, $E:ident) => {{
        assert!(tables::LANG_ONLY.len() == EXPECTED_LANG_ONLY_LEN);
        assert!(CHUNK * 14 >= EXPECTED_LANG_ONLY_LEN && CHUNK * 13 < EXPECTED_LANG_ONLY_LEN);
        assert!($E.len() == if $k < 13 { CHUNK } else { EXPECTED_LANG_ONLY_LEN - 13 * CHUNK });
        let j: usize = kani::any();
        kani::assume(j < $E.len());
        assert!(tables::LANG_ONLY[$k * CHUNK + j] == $E[j]);
    }};
}
#[kani::proof]
#[kani::unwind(10)]
fn lang_only_eq_cldr_00() { lang_only_chunk!(0, EXPECTED_LANG_ONLY_00) }
#[kani::proof]
#[kani::unwind(10)]
fn lang_only_eq_cldr_01() { lang_only_chunk!(1, EXPECTED_LANG_ONLY_01) }
#[kani::proof]
#[kani::unwind(10)]
fn lang_only_eq_cldr_02() { lang_only_chunk!(2, EXPECTED_LANG_ONLY_02) }
#[kani::proof]
#[kani::unwind(10)]
fn lang_only_eq_cldr_03() { lang_only_chunk!(3, EXPECTED_LANG_ONLY_03) }
#[kani::proof]
#[kani::unwind(10)]
fn lang_only_eq_cldr_04() { lang_only_chunk!(4, EXPECTED_LANG_ONLY_04) }
#[kani::proof]
#[kani::unwind(10)]
fn lang_only_eq_cldr_05() { lang_only_chunk!(5, EXPECTED_LANG_ONLY_05) }
#[kani::proof]
#[kani::unwind(10)]
fn lang_only_eq_cldr_06() { lang_only_chunk!(6, EXPECTED_LANG_ONLY_06) }
#[kani::proof]
#[kani::unwind(10)]
fn lang_only_eq_cldr_07() { lang_only_chunk!(7, EXPECTED_LANG_ONLY_07) }
#[kani::proof]
#[kani::unwind(10)]
fn lang_only_eq_cldr_08() { lang_only_chunk!(8, EXPECTED_LANG_ONLY_08) }
#[kani::proof]
#[kani::unwind(10)]
fn lang_only_eq_cldr_09() { lang_only_chunk!(9, EXPECTED_LANG_ONLY_09) }
#[kani::proof]
#[kani::unwind(10)]
fn lang_only_eq_cldr_10() { lang_only_chunk!(10, EXPECTED_LANG_ONLY_10) }
#[kani::proof]
#[kani::unwind(10)]
fn lang_only_eq_cldr_11() { lang_only_chunk!(11, EXPECTED_LANG_ONLY_11) }
#[kani::proof]
#[kani::unwind(10)]
fn lang_only_eq_cldr_12() { lang_only_chunk!(12, EXPECTED_LANG_ONLY_12) }
#[kani::proof]
#[kani::unwind(10)]
fn lang_only_eq_cldr_13() { lang_only_chunk!(13, EXPECTED_LANG_ONLY_13) }
#[kani::proof]
#[kani::unwind(10)]
fn lang_only_sorted() { sorted1_body!(LANG_ONLY) }
#[kani::proof]
#[kani::unwind(10)]
fn lang_only_wf() { wf1_body!(LANG_ONLY, |k: u64| wf_lang(k), |k: u64, v: Val| k == UND || v.0 == Some(k)) }

#[kani::proof]
#[kani::unwind(10)]
fn lang_region_eq_cldr() { eq_body!(LANG_REGION, EXPECTED_LANG_REGION) }
#[kani::proof]
#[kani::unwind(10)]
fn lang_region_sorted() { sorted2_body!(LANG_REGION) }
#[kani::proof]
#[kani::unwind(10)]
fn lang_region_wf() { wf2_body!(LANG_REGION, |l: u64, r: u32| wf_lang(l) && l != UND && wf_region(r), |l: u64, r: u32, v: Val| v.0 == Some(l) && v.2 == Some(r)) }

#[kani::proof]
#[kani::unwind(10)]
fn lang_script_eq_cldr() { eq_body!(LANG_SCRIPT, EXPECTED_LANG_SCRIPT) }
#[kani::proof]
#[kani::unwind(10)]
fn lang_script_sorted() { sorted2_body!(LANG_SCRIPT) }
#[kani::proof]
#[kani::unwind(10)]
fn lang_script_wf() { wf2_body!(LANG_SCRIPT, |l: u64, s: u32| wf_lang(l) && l != UND && wf_script(s), |l: u64, s: u32, v: Val| v.0 == Some(l) && v.1 == Some(s)) }

#[kani::proof]
#[kani::unwind(10)]
fn script_region_eq_cldr() { eq_body!(SCRIPT_REGION, EXPECTED_SCRIPT_REGION) }
#[kani::proof]
#[kani::unwind(10)]
fn script_region_sorted() { sorted2_body!(SCRIPT_REGION) }
#[kani::proof]
#[kani::unwind(10)]
fn script_region_wf() { wf2_body!(SCRIPT_REGION, |s: u32, r: u32| wf_script(s) && wf_region(r), |s: u32, r: u32, v: Val| v.1 == Some(s) && v.2 == Some(r)) }

#[kani::proof]
#[kani::unwind(10)]
fn script_only_eq_cldr() { eq_body!(SCRIPT_ONLY, EXPECTED_SCRIPT_ONLY) }
#[kani::proof]
#[kani::unwind(10)]
fn script_only_sorted() { sorted1_body!(SCRIPT_ONLY) }
#[kani::proof]
#[kani::unwind(10)]
fn script_only_wf() { wf1_body!(SCRIPT_ONLY, |k: u32| wf_script(k), |k: u32, v: Val| v.1 == Some(k)) }

#[kani::proof]
#[kani::unwind(10)]
fn region_only_eq_cldr() { eq_body!(REGION_ONLY, EXPECTED_REGION_ONLY) }
#[kani::proof]
#[kani::unwind(10)]
fn region_only_sorted() { sorted1_body!(REGION_ONLY) }
#[kani::proof]
#[kani::unwind(10)]
fn region_only_wf() { wf1_body!(REGION_ONLY, |k: u32| wf_region(k), |k: u32, v: Val| v.2 == Some(k)) }

#[kani::proof]
#[kani::unwind(10)]
fn cldr_version_matches() {
    assert!(tables::CLDR_VERSION.as_bytes() == EXPECTED_CLDR_VERSION.as_bytes());
    assert!(super::CLDR_VERSION.as_bytes() == EXPECTED_CLDR_VERSION.as_bytes());
}

/// vacuity guard for wf_*: the predicates accept real subtags and reject junk
#[kani::proof]
#[kani::unwind(10)]
fn wf_predicates_not_vacuous() {
    assert!(wf_lang(0x6e65) && wf_lang(UND) && !wf_lang(0x4e45) && !wf_lang(0x31) && !wf_lang(0x6e00_65));
    assert!(wf_script(0x6e74614c) && !wf_script(0x6e74616c) && !wf_script(0x74614c));
    assert!(wf_region(0x5355) && wf_region(0x393134) && !wf_region(0x7375) && !wf_region(0x53_0055));
}
