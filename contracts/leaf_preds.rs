// leaf_preds.rs — the byte-level leaf predicates, written ONCE and used in both worlds:
//   * Kani compiles this file as plain Rust (lines starting with `//@` are comments) and asserts
//     the predicates on the real leaf functions of /repo for all inputs;
//   * Verus receives the same text with the `//@ ` prefixes removed (and `-> T` named as
//     `-> (r: T)`), and proves each exec predicate equal to the spec function of prelude.rs that
//     the Verus-side leaf contracts are stated with.
// So the assumption Verus makes about e.g. Variant::from_bytes is literally the predicate that
// Kani proved about the real Variant::from_bytes (DESIGN.md section 4.4).

pub fn x_alpha(c: u8) -> bool
//@ ensures r == alpha(c),
{
    (c >= b'a' && c <= b'z') || (c >= b'A' && c <= b'Z')
}

pub fn x_digit(c: u8) -> bool
//@ ensures r == digit(c),
{
    c >= b'0' && c <= b'9'
}

pub fn x_alnum(c: u8) -> bool
//@ ensures r == alnum(c),
{
    x_alpha(c) || x_digit(c)
}

pub fn x_lower_b(c: u8) -> u8
//@ ensures r == lower_b(c),
{
    if c >= b'A' && c <= b'Z' { c + 32 } else { c }
}

pub fn x_upper_b(c: u8) -> u8
//@ ensures r == upper_b(c),
{
    if c >= b'a' && c <= b'z' { c - 32 } else { c }
}

pub fn x_all_alpha(v: &[u8]) -> bool
//@ ensures r == all_alpha(v@),
{
    let mut i: usize = 0;
    while i < v.len()
    //@ invariant 0 <= i <= v.len(), forall|j: int| 0 <= j < i ==> alpha(#[trigger] v@[j]),
    //@ decreases v.len() - i,
    {
        if !x_alpha(v[i]) { return false; }
        i += 1;
    }
    true
}

pub fn x_all_digit(v: &[u8]) -> bool
//@ ensures r == all_digit(v@),
{
    let mut i: usize = 0;
    while i < v.len()
    //@ invariant 0 <= i <= v.len(), forall|j: int| 0 <= j < i ==> digit(#[trigger] v@[j]),
    //@ decreases v.len() - i,
    {
        if !x_digit(v[i]) { return false; }
        i += 1;
    }
    true
}

pub fn x_all_alnum(v: &[u8]) -> bool
//@ ensures r == all_alnum(v@),
{
    let mut i: usize = 0;
    while i < v.len()
    //@ invariant 0 <= i <= v.len(), forall|j: int| 0 <= j < i ==> alnum(#[trigger] v@[j]),
    //@ decreases v.len() - i,
    {
        if !x_alnum(v[i]) { return false; }
        i += 1;
    }
    true
}

pub fn x_is_language(v: &[u8]) -> bool
//@ ensures r == is_language(v@),
{
    let n = v.len();
    (n == 2 || n == 3 || (n >= 5 && n <= 8)) && x_all_alpha(v)
}

pub fn x_is_script(v: &[u8]) -> bool
//@ ensures r == is_script(v@),
{
    v.len() == 4 && x_all_alpha(v)
}

pub fn x_is_region(v: &[u8]) -> bool
//@ ensures r == is_region(v@),
{
    (v.len() == 2 && x_all_alpha(v)) || (v.len() == 3 && x_all_digit(v))
}

pub fn x_is_variant(v: &[u8]) -> bool
//@ ensures r == is_variant_st(v@),
{
    let n = v.len();
    (n >= 5 && n <= 8 && x_all_alnum(v)) || (n == 4 && x_digit(v[0]) && x_all_alnum(v))
}

pub fn x_is_ukey(v: &[u8]) -> bool
//@ ensures r == is_ukey(v@),
{
    v.len() == 2 && x_alnum(v[0]) && x_alpha(v[1])
}

pub fn x_is_utype(v: &[u8]) -> bool
//@ ensures r == is_utype(v@),
{
    let n = v.len();
    n >= 3 && n <= 8 && x_all_alnum(v)
}

pub fn x_is_tkey(v: &[u8]) -> bool
//@ ensures r == is_tkey(v@),
{
    v.len() == 2 && x_alpha(v[0]) && x_digit(v[1])
}

pub fn x_lang_shaped(v: &[u8]) -> bool
//@ ensures r == lang_shaped(v@),
{
    let n = v.len();
    n >= 2 && n <= 8 && x_all_alpha(v)
}

pub fn x_is_private(v: &[u8]) -> bool
//@ ensures r == is_private(v@),
{
    let n = v.len();
    n >= 1 && n <= 8 && x_all_alnum(v)
}

/// text == lower(v)
pub fn x_eq_lower(text: &[u8], v: &[u8]) -> bool
//@ ensures r == (text@ == lower(v@)),
{
    if text.len() != v.len() { return false; }
    let mut i: usize = 0;
    while i < v.len()
    //@ invariant 0 <= i <= v.len(), text.len() == v.len(), forall|j: int| 0 <= j < i ==> text@[j] == lower_b(v@[j]),
    //@ decreases v.len() - i,
    {
        if text[i] != x_lower_b(v[i]) {
            //@ proof { assert(lower(v@)[i as int] == lower_b(v@[i as int])); }
            return false;
        }
        i += 1;
    }
    //@ proof { assert(text@ =~= lower(v@)); }
    true
}

/// text == upper(v)
pub fn x_eq_upper(text: &[u8], v: &[u8]) -> bool
//@ ensures r == (text@ == upper(v@)),
{
    if text.len() != v.len() { return false; }
    let mut i: usize = 0;
    while i < v.len()
    //@ invariant 0 <= i <= v.len(), text.len() == v.len(), forall|j: int| 0 <= j < i ==> text@[j] == upper_b(v@[j]),
    //@ decreases v.len() - i,
    {
        if text[i] != x_upper_b(v[i]) {
            //@ proof { assert(upper(v@)[i as int] == upper_b(v@[i as int])); }
            return false;
        }
        i += 1;
    }
    //@ proof { assert(text@ =~= upper(v@)); }
    true
}

/// text == title(v)
pub fn x_eq_title(text: &[u8], v: &[u8]) -> bool
//@ ensures r == (text@ == title(v@)),
{
    if text.len() != v.len() { return false; }
    let mut i: usize = 0;
    while i < v.len()
    //@ invariant 0 <= i <= v.len(), text.len() == v.len(),
    //@     forall|j: int| 0 <= j < i ==> text@[j] == (if j == 0 { upper_b(v@[j]) } else { lower_b(v@[j]) }),
    //@ decreases v.len() - i,
    {
        let e = if i == 0 { x_upper_b(v[i]) } else { x_lower_b(v[i]) };
        if text[i] != e {
            //@ proof { assert(title(v@)[i as int] == (if i == 0 { upper_b(v@[i as int]) } else { lower_b(v@[i as int]) })); }
            return false;
        }
        i += 1;
    }
    //@ proof { assert(text@ =~= title(v@)); }
    true
}

/// a == b as byte strings
pub fn x_eq_bytes(a: &[u8], b: &[u8]) -> bool
//@ ensures r == (a@ == b@),
{
    if a.len() != b.len() { return false; }
    let mut i: usize = 0;
    while i < a.len()
    //@ invariant 0 <= i <= a.len(), a.len() == b.len(), forall|j: int| 0 <= j < i ==> a@[j] == b@[j],
    //@ decreases a.len() - i,
    {
        if a[i] != b[i] { return false; }
        i += 1;
    }
    //@ proof { assert(a@ =~= b@); }
    true
}

/// byte-wise lexicographic `a <= b`
pub fn x_lex_le(a: &[u8], b: &[u8]) -> bool
//@ ensures r == lex_le(a@, b@),
{
    let mut i: usize = 0;
    //@ proof { assert(a@.skip(0) =~= a@); assert(b@.skip(0) =~= b@); }
    while i < a.len()
    //@ invariant 0 <= i <= a.len(), i <= b.len(), lex_le(a@, b@) == lex_le(a@.skip(i as int), b@.skip(i as int)),
    //@ decreases a.len() - i,
    {
        if i >= b.len() {
            return false;
        }
        if a[i] < b[i] { return true; }
        if a[i] > b[i] { return false; }
        //@ proof { assert(a@.skip(i as int).skip(1) =~= a@.skip(i as int + 1)); assert(b@.skip(i as int).skip(1) =~= b@.skip(i as int + 1)); }
        i += 1;
    }
    true
}
