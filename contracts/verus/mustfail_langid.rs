
// ---- must-fail variants (vacuity guard): appended to the crate in a separate run; EVERY function below must be REJECTED ----
// (a contradictory assumed contract / axiom, or a prelude that makes everything provable, would let them verify)
pub mod zz_must_fail {
    #[allow(unused_imports)] use vstd::prelude::*;
    #[allow(unused_imports)] use crate::vspec::*;
    verus! {
    pub proof fn zz_must_fail_false()
        ensures false,
    {
        broadcast use axiom_text_injective, axiom_peekable_items, axiom_split_iter_items, axiom_display_ref, axiom_display_tiny;
        crate::subtags::Variant::axiom_ord();
        lemma_und_props();
    }
    pub proof fn zz_must_fail_roundtrip(v: LidView)
        requires lid_view_ok(v),
        ensures lid_toks(v).len() == 1,
    { lemma_lid_roundtrip(v); }
    pub proof fn zz_must_fail_fold(a: Seq<u8>, b: Seq<u8>)
        requires same_fold(a, b),
        ensures a == b,
    { lemma_fold_classes(a, b); }
    pub fn zz_must_fail_leaf(v: &[u8]) {
        let r = crate::subtags::Language::from_bytes(v);
        assert(r is Ok);
    }
    pub fn zz_must_fail_parser(v: &[u8]) {
        let r = crate::LanguageIdentifier::from_bytes(v);
        assert(r is Ok ==> r->Ok_0.view().variants.len() == 0);
    }
    }
}
