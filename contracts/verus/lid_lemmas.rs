// ---- L-RT / L-INV for language identifiers (C05, C09, C12): lemmas over the spec vocabulary only -----------------------
// The parser contract says   from_bytes(b) = Ok(y)  with  lid_expected(subtags_of(b), y.view())  iff lid_accepts(subtags_of(b), false);
// the Display contract says  to_string(x) = lid_ser(x.view()).  The lemmas below close the loop at the level of views.

pub open spec fn no_sep(s: Seq<u8>) -> bool { forall|i: int| 0 <= i < s.len() ==> !is_sep(#[trigger] s[i]) }
pub open spec fn all_no_sep(t: Seq<Seq<u8>>) -> bool { forall|i: int| 0 <= i < t.len() ==> no_sep(#[trigger] t[i]) }
pub open spec fn sepf() -> spec_fn(u8) -> bool { |c: u8| is_sep(c) }

pub proof fn lemma_first_sep_prefix(a: Seq<u8>, b: Seq<u8>)
    requires no_sep(a),
    ensures first_sep_by(a + b, sepf()) == a.len() + first_sep_by(b, sepf()),
    decreases a.len(),
{
    if a.len() == 0 {
        assert(a + b =~= b);
    } else {
        assert(!is_sep(a[0]));
        assert((a + b)[0] == a[0]);
        assert((a + b).skip(1) =~= a.skip(1) + b);
        assert forall|i: int| 0 <= i < a.skip(1).len() implies !is_sep(#[trigger] a.skip(1)[i]) by { assert(a.skip(1)[i] == a[i + 1]); }
        lemma_first_sep_prefix(a.skip(1), b);
    }
}

/// front unfolding of dash_join (which is defined from the back)
pub proof fn lemma_dash_join_front(x: Seq<u8>, r: Seq<Seq<u8>>)
    ensures dash_join(seq![x] + r) == dash() + x + dash_join(r),
    decreases r.len(),
{
    let s = seq![x] + r;
    if r.len() == 0 {
        assert(s =~= seq![x]);
        assert(s.drop_last() =~= Seq::<Seq<u8>>::empty());
        assert(dash_join(s.drop_last()) =~= Seq::<u8>::empty());
        assert(dash_join(s) =~= dash() + x);
        assert(dash() + x + dash_join(r) =~= dash() + x);
    } else {
        assert(s.drop_last() =~= seq![x] + r.drop_last());
        assert(s.last() == r.last());
        lemma_dash_join_front(x, r.drop_last());
        assert(dash_join(s) == dash_join(seq![x] + r.drop_last()) + dash() + r.last());
        assert(dash_join(r) == dash_join(r.drop_last()) + dash() + r.last());
        assert(dash_join(s) =~= dash() + x + dash_join(r));
    }
}

/// splitting "h-r0-r1-..." at the separators gives back [h, r0, r1, ...] when no token contains a separator
pub proof fn lemma_split_head_join(h: Seq<u8>, r: Seq<Seq<u8>>)
    requires no_sep(h), all_no_sep(r),
    ensures split_by(h + dash_join(r), sepf()) == seq![h] + r,
    decreases r.len(),
{
    let s = h + dash_join(r);
    if r.len() == 0 {
        assert(dash_join(r) =~= Seq::<u8>::empty());
        assert(s =~= h);
        lemma_first_sep_prefix(h, Seq::<u8>::empty());
        assert(h + Seq::<u8>::empty() =~= h);
        assert(first_sep_by(Seq::<u8>::empty(), sepf()) == 0);
        assert(first_sep_by(h, sepf()) == h.len());
        assert(split_by(h, sepf()) =~= seq![h]);
        assert(seq![h] + r =~= seq![h]);
    } else {
        let x = r[0];
        let r2 = r.skip(1);
        assert(r =~= seq![x] + r2);
        lemma_dash_join_front(x, r2);
        let tail = dash() + x + dash_join(r2);
        assert(dash_join(r) == tail);
        lemma_first_sep_prefix(h, tail);
        assert(tail[0] == 0x2du8);
        assert(is_sep(tail[0]));
        assert(first_sep_by(tail, sepf()) == 0);
        let i = h.len() as int;
        assert(first_sep_by(s, sepf()) == i);
        assert(i < s.len());
        assert(s.take(i) =~= h);
        assert(s.skip(i + 1) =~= x + dash_join(r2));
        assert(no_sep(x)) by { assert(r[0] == x); }
        assert forall|k: int| 0 <= k < r2.len() implies no_sep(#[trigger] r2[k]) by { assert(r2[k] == r[k + 1]); }
        lemma_split_head_join(x, r2);
        assert(split_by(s, sepf()) == seq![s.take(i)] + split_by(s.skip(i + 1), sepf()));
        assert(seq![h] + (seq![x] + r2) =~= seq![h] + r);
    }
}

pub open spec fn opt_seq(o: Option<Seq<u8>>) -> Seq<Seq<u8>> { match o { Some(s) => seq![s], None => Seq::empty() } }
/// the subtags the canonical string of a view consists of
pub open spec fn lid_toks(v: LidView) -> Seq<Seq<u8>> {
    seq![lang_text(v.lang)] + (opt_seq(v.script) + opt_seq(v.region) + v.variants)
}
pub proof fn lemma_dash_join_concat(a: Seq<Seq<u8>>, b: Seq<Seq<u8>>)
    ensures dash_join(a + b) == dash_join(a) + dash_join(b),
    decreases b.len(),
{
    if b.len() == 0 {
        assert(a + b =~= a);
        assert(dash_join(b) =~= Seq::<u8>::empty());
        assert(dash_join(a) + dash_join(b) =~= dash_join(a));
    } else {
        assert((a + b).drop_last() =~= a + b.drop_last());
        assert((a + b).last() == b.last());
        lemma_dash_join_concat(a, b.drop_last());
        assert(dash_join(a + b) =~= dash_join(a) + dash_join(b));
    }
}
pub proof fn lemma_opt_dash_join(o: Option<Seq<u8>>)
    ensures opt_dash(o) == dash_join(opt_seq(o)),
{
    match o {
        Some(s) => {
            assert(seq![s].drop_last() =~= Seq::<Seq<u8>>::empty());
            assert(dash_join(seq![s].drop_last()) =~= Seq::<u8>::empty());
            assert(dash_join(seq![s]) =~= dash() + s);
        }
        None => {}
    }
}
pub proof fn lemma_lid_ser_is_join(v: LidView)
    ensures lid_ser(v) == lang_text(v.lang) + dash_join(opt_seq(v.script) + opt_seq(v.region) + v.variants),
{
    lemma_opt_dash_join(v.script);
    lemma_opt_dash_join(v.region);
    lemma_dash_join_concat(opt_seq(v.script), opt_seq(v.region));
    lemma_dash_join_concat(opt_seq(v.script) + opt_seq(v.region), v.variants);
    assert(lid_ser(v) =~= lang_text(v.lang) + dash_join(opt_seq(v.script) + opt_seq(v.region) + v.variants));
}

pub proof fn lemma_alnum_no_sep(s: Seq<u8>)
    requires all_alnum(s),
    ensures no_sep(s),
{
    assert forall|i: int| 0 <= i < s.len() implies !is_sep(#[trigger] s[i]) by { assert(alnum(s[i])); }
}
pub proof fn lemma_alpha_is_alnum(s: Seq<u8>)
    requires all_alpha(s) || all_digit(s),
    ensures all_alnum(s),
{
    assert forall|i: int| 0 <= i < s.len() implies alnum(#[trigger] s[i]) by { if all_alpha(s) { assert(alpha(s[i])); } else { assert(digit(s[i])); } }
}

/// the view restated: what C04/C05 quantify over (every value of the safe API satisfies it: LanguageIdentifier::lemma_wf_view)
pub open spec fn lid_view_ok(v: LidView) -> bool {
    &&& (v.lang is Some ==> is_language(v.lang->0) && lower(v.lang->0) == v.lang->0 && v.lang->0 != und())
    &&& (v.script is Some ==> is_script(v.script->0) && title(v.script->0) == v.script->0)
    &&& (v.region is Some ==> is_region(v.region->0) && upper(v.region->0) == v.region->0)
    &&& strictly_sorted(v.variants)
    &&& forall|i: int| 0 <= i < v.variants.len() ==> is_variant_st(#[trigger] v.variants[i]) && lower(v.variants[i]) == v.variants[i]
}

pub proof fn lemma_und_props()
    ensures is_language(und()), lower(und()) == und(), lang_view(und()) == None::<Seq<u8>>,
{
    assert(und().len() == 3);
    assert(alpha(und()[0]) && alpha(und()[1]) && alpha(und()[2]));
    assert forall|i: int| 0 <= i < und().len() implies alpha(#[trigger] und()[i]) by {}
    assert(lower(und()) =~= und());
}

/// L-RT (C05): the canonical string of a well-formed view splits into its own subtags, the grammar accepts them, and the
/// value the grammar prescribes for them is that view again
pub proof fn lemma_lid_roundtrip(v: LidView)
    requires lid_view_ok(v),
    ensures
        subtags_of(lid_ser(v)) == lid_toks(v),
        lid_accepts(lid_toks(v), false),
        lid_end(lid_toks(v)) == lid_toks(v).len(),
        lid_expected(lid_toks(v), v),
{
    let t = lid_toks(v);
    let rest = opt_seq(v.script) + opt_seq(v.region) + v.variants;
    let h = lang_text(v.lang);
    lemma_und_props();
    // no token contains a separator
    assert(is_language(h));
    lemma_alpha_is_alnum(h);
    lemma_alnum_no_sep(h);
    assert forall|i: int| 0 <= i < rest.len() implies no_sep(#[trigger] rest[i]) by {
        let x = rest[i];
        if v.script is Some && i == 0 { assert(x == v.script->0); lemma_alpha_is_alnum(x); lemma_alnum_no_sep(x); }
        else {
            let off = opt_seq(v.script).len() as int;
            if v.region is Some && i == off { assert(x == v.region->0); lemma_alpha_is_alnum(x); lemma_alnum_no_sep(x); }
            else {
                let off2 = off + opt_seq(v.region).len();
                assert(x == v.variants[i - off2]);
                assert(is_variant_st(x));
                lemma_alnum_no_sep(x);
            }
        }
    }
    lemma_lid_ser_is_join(v);
    lemma_split_head_join(h, rest);
    assert(subtags_of(lid_ser(v)) == t);
    // the positions
    let ns: int = if v.script is Some { 1 } else { 0 };
    let nr: int = if v.region is Some { 1 } else { 0 };
    assert(t.len() == 1 + ns + nr + v.variants.len());
    assert(t[0] == h);
    if v.script is Some { assert(t[1] == v.script->0); }
    if v.region is Some { assert(t[1 + ns] == v.region->0); }
    assert forall|j: int| 0 <= j < v.variants.len() implies #[trigger] t[1 + ns + nr + j] == v.variants[j] by {}
    // has_script(t) iff the view has a script
    if v.script is None && t.len() > 1 {
        lemma_classes_disjoint(t[1]);
        if v.region is Some { assert(is_region(t[1])); } else { assert(t[1] == v.variants[0]); assert(is_variant_st(t[1])); }
    }
    assert(has_script(t) == (v.script is Some));
    assert(region_pos(t) == 1 + ns);
    if v.region is None && t.len() > 1 + ns {
        lemma_classes_disjoint(t[1 + ns]);
        assert(t[1 + ns] == v.variants[0]);
        assert(is_variant_st(t[1 + ns]));
    }
    assert(has_region(t) == (v.region is Some));
    assert(var_pos(t) == 1 + ns + nr);
    assert forall|i: int| var_pos(t) <= i < t.len() implies is_variant_st(#[trigger] t[i]) by {
        assert(t[i] == v.variants[i - var_pos(t)]);
    }
    lemma_var_run(t, var_pos(t), t.len() as int);
    assert(lid_end(t) == t.len());
    // the prescribed value
    assert(lang_view(h) == v.lang) by {
        if v.lang is Some { assert(lower(h) == h); }
    }
    assert forall|x: Seq<u8>| #[trigger] v.variants.contains(x) <==> lid_var_member(t, x) by {
        if v.variants.contains(x) {
            let j = choose|j: int| 0 <= j < v.variants.len() && v.variants[j] == x;
            assert(t[var_pos(t) + j] == x);
            assert(lower(t[var_pos(t) + j]) == x);
        }
        if lid_var_member(t, x) {
            let i = choose|i: int| var_pos(t) <= i < lid_end(t) && x == lower(#[trigger] t[i]);
            assert(t[i] == v.variants[i - var_pos(t)]);
            assert(v.variants[i - var_pos(t)] == x);
        }
    }
}

/// two strictly sorted sequences with the same elements are equal
pub proof fn lemma_strict_sorted_same_set(a: Seq<Seq<u8>>, b: Seq<Seq<u8>>)
    requires strictly_sorted(a), strictly_sorted(b), forall|x: Seq<u8>| a.contains(x) <==> b.contains(x),
    ensures a == b,
    decreases a.len(),
{
    if a.len() == 0 {
        if b.len() > 0 { assert(b.contains(b[0])); }
        assert(a =~= b);
    } else if b.len() == 0 {
        assert(a.contains(a[0]));
    } else {
        // the last elements are the maxima, hence equal
        let la = a.last(); let lb = b.last();
        assert(a.contains(la)); assert(b.contains(lb));
        let i = choose|i: int| 0 <= i < b.len() && b[i] == la;
        let j = choose|j: int| 0 <= j < a.len() && a[j] == lb;
        if la != lb {
            // la = b[i] <= lb and lb = a[j] <= la
            if i < b.len() - 1 { assert(lex_lt(b[i], b[b.len() - 1])); }
            if j < a.len() - 1 { assert(lex_lt(a[j], a[a.len() - 1])); }
            assert(lex_le(la, lb) && lex_le(lb, la));
            lemma_lex_le_antisym(la, lb);
        }
        let a2 = a.drop_last(); let b2 = b.drop_last();
        assert forall|x: Seq<u8>| a2.contains(x) <==> b2.contains(x) by {
            if a2.contains(x) {
                let k = choose|k: int| 0 <= k < a2.len() && a2[k] == x;
                assert(a[k] == x); assert(a.contains(x));
                assert(lex_lt(a[k], a[a.len() - 1]));
                let m = choose|m: int| 0 <= m < b.len() && b[m] == x;
                assert(x != lb);
                assert(b2[m] == x);
            }
            if b2.contains(x) {
                let k = choose|k: int| 0 <= k < b2.len() && b2[k] == x;
                assert(b[k] == x); assert(b.contains(x));
                assert(lex_lt(b[k], b[b.len() - 1]));
                let m = choose|m: int| 0 <= m < a.len() && a[m] == x;
                assert(x != la);
                assert(a2[m] == x);
            }
        }
        lemma_strict_sorted_same_set(a2, b2);
        assert(a =~= a2.push(la));
        assert(b =~= b2.push(lb));
    }
}

/// the grammar prescribes ONE value for a subtag sequence
pub proof fn lemma_lid_expected_unique(t: Seq<Seq<u8>>, v: LidView, w: LidView)
    requires lid_expected(t, v), lid_expected(t, w),
    ensures v == w,
{
    assert forall|x: Seq<u8>| v.variants.contains(x) <==> w.variants.contains(x) by {
        assert(v.variants.contains(x) <==> lid_var_member(t, x));
        assert(w.variants.contains(x) <==> lid_var_member(t, x));
    }
    lemma_strict_sorted_same_set(v.variants, w.variants);
}

/// C05 for views: whatever the parser returns on the canonical string of v has view v;
/// C12: the canonical string determines the view (lid_ser is injective on well-formed views)
pub proof fn lemma_lid_parse_ser(v: LidView, w: LidView)
    requires lid_view_ok(v), lid_expected(subtags_of(lid_ser(v)), w),
    ensures w == v,
{
    lemma_lid_roundtrip(v);
    lemma_lid_expected_unique(lid_toks(v), v, w);
}
pub proof fn lemma_lid_ser_injective(v: LidView, w: LidView)
    requires lid_view_ok(v), lid_view_ok(w), lid_ser(v) == lid_ser(w),
    ensures v == w,
{
    lemma_lid_roundtrip(v);
    lemma_lid_roundtrip(w);
    lemma_lid_expected_unique(lid_toks(v), v, w);
}

// ---- L-INV (C09): case, separator choice, order / repetition of variants ----------------------------------------------
/// two subtags that differ only in letter case
pub open spec fn same_fold(a: Seq<u8>, b: Seq<u8>) -> bool { lower(a) == lower(b) }
pub open spec fn same_fold_seq(s: Seq<Seq<u8>>, t: Seq<Seq<u8>>) -> bool {
    s.len() == t.len() && forall|k: int| 0 <= k < s.len() ==> same_fold(#[trigger] s[k], t[k])
}
pub proof fn lemma_fold_bytes(a: Seq<u8>, b: Seq<u8>)
    requires same_fold(a, b),
    ensures
        a.len() == b.len(),
        forall|i: int| 0 <= i < a.len() ==> lower_b(#[trigger] a[i]) == lower_b(b[i]),
        forall|i: int| 0 <= i < a.len() ==> (alpha(#[trigger] a[i]) <==> alpha(b[i])) && (digit(a[i]) <==> digit(b[i])) && (alnum(a[i]) <==> alnum(b[i]))
            && upper_b(a[i]) == upper_b(b[i]),
{
    assert(lower(a).len() == a.len() && lower(b).len() == b.len());
    assert forall|i: int| 0 <= i < a.len() implies lower_b(#[trigger] a[i]) == lower_b(b[i]) by {
        assert(lower(a)[i] == lower_b(a[i]));
        assert(lower(b)[i] == lower_b(b[i]));
    }
}
/// every subtag class and every normal form depends on a subtag only up to letter case
pub proof fn lemma_fold_classes(a: Seq<u8>, b: Seq<u8>)
    requires same_fold(a, b),
    ensures
        is_language(a) == is_language(b), is_script(a) == is_script(b), is_region(a) == is_region(b),
        is_variant_st(a) == is_variant_st(b),
        title(a) == title(b), upper(a) == upper(b), lang_view(a) == lang_view(b),
{
    lemma_fold_bytes(a, b);
    assert(all_alpha(a) == all_alpha(b)) by {
        if all_alpha(a) { assert forall|i: int| 0 <= i < b.len() implies alpha(#[trigger] b[i]) by { assert(alpha(a[i])); } }
        if all_alpha(b) { assert forall|i: int| 0 <= i < a.len() implies alpha(#[trigger] a[i]) by { assert(alpha(b[i])); } }
    }
    assert(all_digit(a) == all_digit(b)) by {
        if all_digit(a) { assert forall|i: int| 0 <= i < b.len() implies digit(#[trigger] b[i]) by { assert(digit(a[i])); } }
        if all_digit(b) { assert forall|i: int| 0 <= i < a.len() implies digit(#[trigger] a[i]) by { assert(digit(b[i])); } }
    }
    assert(all_alnum(a) == all_alnum(b)) by {
        if all_alnum(a) { assert forall|i: int| 0 <= i < b.len() implies alnum(#[trigger] b[i]) by { assert(alnum(a[i])); } }
        if all_alnum(b) { assert forall|i: int| 0 <= i < a.len() implies alnum(#[trigger] a[i]) by { assert(alnum(b[i])); } }
    }
    assert(title(a) =~= title(b));
    assert(upper(a) =~= upper(b));
}

pub proof fn lemma_var_run_fold(s: Seq<Seq<u8>>, t: Seq<Seq<u8>>, from: int)
    requires same_fold_seq(s, t), 0 <= from,
    ensures var_run(s, from) == var_run(t, from),
    decreases s.len() - from,
{
    if from < s.len() {
        lemma_fold_classes(s[from], t[from]);
        if is_variant_st(s[from]) { lemma_var_run_fold(s, t, from + 1); }
    }
}

/// C09 (letter case): subtag sequences that differ only in letter case are accepted alike and get the same value
pub proof fn lemma_lid_case_invariant(s: Seq<Seq<u8>>, t: Seq<Seq<u8>>, allow: bool, v: LidView)
    requires same_fold_seq(s, t),
    ensures
        lid_accepts(s, allow) == lid_accepts(t, allow),
        lid_end(s) == lid_end(t),
        s.len() > 0 ==> (lid_expected(s, v) <==> lid_expected(t, v)),
{
    if s.len() > 0 {
        lemma_fold_classes(s[0], t[0]);
        if s.len() > 1 { lemma_fold_classes(s[1], t[1]); }
        assert(has_script(s) == has_script(t));
        let p = region_pos(s);
        if s.len() > p { lemma_fold_classes(s[p], t[p]); }
        assert(has_region(s) == has_region(t));
        lemma_var_run_fold(s, t, var_pos(s));
        assert forall|x: Seq<u8>| lid_var_member(s, x) <==> lid_var_member(t, x) by {
            if lid_var_member(s, x) {
                let i = choose|i: int| var_pos(s) <= i < lid_end(s) && x == lower(#[trigger] s[i]);
                lemma_var_run_bounds(s, var_pos(s));
                assert(same_fold(s[i], t[i]));
                assert(x == lower(t[i]));
            }
            if lid_var_member(t, x) {
                let i = choose|i: int| var_pos(t) <= i < lid_end(t) && x == lower(#[trigger] t[i]);
                lemma_var_run_bounds(t, var_pos(t));
                assert(same_fold(s[i], t[i]));
                assert(x == lower(s[i]));
            }
        }
    } else {
        assert(var_run(s, var_pos(s)) == 0 && var_run(t, var_pos(t)) == 0);
    }
}

/// two byte strings that differ only in letter case and in '-' versus '_'
pub open spec fn same_fold_bytes(a: Seq<u8>, b: Seq<u8>) -> bool {
    a.len() == b.len() && forall|i: int| 0 <= i < a.len() ==>
        (is_sep(#[trigger] a[i]) <==> is_sep(b[i])) && (!is_sep(a[i]) ==> lower_b(a[i]) == lower_b(b[i]))
}
pub proof fn lemma_first_sep_fold(a: Seq<u8>, b: Seq<u8>)
    requires same_fold_bytes(a, b),
    ensures first_sep_by(a, sepf()) == first_sep_by(b, sepf()),
    decreases a.len(),
{
    if a.len() > 0 {
        assert(is_sep(a[0]) <==> is_sep(b[0]));
        if !is_sep(a[0]) {
            assert forall|i: int| 0 <= i < a.skip(1).len() implies
                (is_sep(#[trigger] a.skip(1)[i]) <==> is_sep(b.skip(1)[i])) && (!is_sep(a.skip(1)[i]) ==> lower_b(a.skip(1)[i]) == lower_b(b.skip(1)[i])) by {
                assert(a.skip(1)[i] == a[i + 1] && b.skip(1)[i] == b[i + 1]);
            }
            lemma_first_sep_fold(a.skip(1), b.skip(1));
        }
    }
}
/// C09 (separator choice + case at the byte level): the subtag sequences differ only in letter case
pub proof fn lemma_subtags_fold(a: Seq<u8>, b: Seq<u8>)
    requires same_fold_bytes(a, b),
    ensures same_fold_seq(subtags_of(a), subtags_of(b)),
    decreases a.len(),
{
    lemma_first_sep_fold(a, b);
    lemma_first_sep_bounds(a, sepf());
    let i = first_sep_by(a, sepf()) as int;
    assert(0 <= i <= a.len());
    assert(lower(a.take(i)) =~= lower(b.take(i))) by {
        assert forall|k: int| 0 <= k < i implies lower_b(a[k]) == lower_b(b[k]) by { lemma_first_sep_none_before(a, k); }
    }
    if i >= a.len() {
        assert(a.take(i) =~= a && b.take(i) =~= b);
        assert(subtags_of(a) =~= seq![a]);
        assert(subtags_of(b) =~= seq![b]);
    } else {
        let a2 = a.skip(i + 1); let b2 = b.skip(i + 1);
        assert forall|k: int| 0 <= k < a2.len() implies
            (is_sep(#[trigger] a2[k]) <==> is_sep(b2[k])) && (!is_sep(a2[k]) ==> lower_b(a2[k]) == lower_b(b2[k])) by {
            assert(a2[k] == a[i + 1 + k] && b2[k] == b[i + 1 + k]);
        }
        lemma_subtags_fold(a2, b2);
        let sa = subtags_of(a); let sb = subtags_of(b);
        assert(sa =~= seq![a.take(i)] + subtags_of(a2));
        assert(sb =~= seq![b.take(i)] + subtags_of(b2));
        assert forall|k: int| 0 <= k < sa.len() implies same_fold(#[trigger] sa[k], sb[k]) by {
            if k > 0 { assert(sa[k] == subtags_of(a2)[k - 1] && sb[k] == subtags_of(b2)[k - 1]); }
        }
    }
}
/// no separator strictly before the first separator
pub proof fn lemma_first_sep_none_before(a: Seq<u8>, k: int)
    requires 0 <= k < first_sep_by(a, sepf()),
    ensures k < a.len(), !is_sep(a[k]),
    decreases a.len(),
{
    if a.len() > 0 && !is_sep(a[0]) && k > 0 {
        lemma_first_sep_none_before(a.skip(1), k - 1);
        assert(a.skip(1)[k - 1] == a[k]);
    }
}

/// C09 (order / repetition of variants): two accepted subtag sequences that agree before the variants and whose variant
/// subtags have the same set of lower-cased forms get the same value
pub proof fn lemma_lid_variant_order_invariant(s: Seq<Seq<u8>>, t: Seq<Seq<u8>>, v: LidView)
    requires
        s.len() > 0, t.len() > 0,
        var_pos(s) == var_pos(t),
        var_pos(s) <= s.len(), var_pos(t) <= t.len(),
        s.take(var_pos(s)) == t.take(var_pos(t)),
        has_script(s) == has_script(t), has_region(s) == has_region(t),
        forall|x: Seq<u8>| lid_var_member(s, x) <==> lid_var_member(t, x),
    ensures lid_expected(s, v) <==> lid_expected(t, v),
{
    let p = var_pos(s);
    assert(s[0] == s.take(p)[0] && t[0] == t.take(p)[0]);
    if has_script(s) { assert(s[1] == s.take(p)[1] && t[1] == t.take(p)[1]); }
    if has_region(s) { let q = region_pos(s); assert(s[q] == s.take(p)[q] && t[q] == t.take(p)[q]); }
}

/// a subtag that cannot continue a language identifier (not a script, region or variant)
pub open spec fn lid_stopper(s: Seq<u8>) -> bool { !is_script(s) && !is_region(s) && !is_variant_st(s) }
/// L-RT with a suffix (the extension part of a locale, or the fields after a tlang): the subtags of a well-formed view,
/// followed by something that cannot continue a language identifier, are consumed exactly and prescribe that view
pub proof fn lemma_lid_roundtrip_suffix(v: LidView, rest: Seq<Seq<u8>>)
    requires lid_view_ok(v), rest.len() == 0 || lid_stopper(rest[0]),
    ensures
        is_language((lid_toks(v) + rest)[0]),
        lid_end(lid_toks(v) + rest) == lid_toks(v).len(),
        lid_expected(lid_toks(v) + rest, v),
{
    let t0 = lid_toks(v);
    let t = t0 + rest;
    let h = lang_text(v.lang);
    lemma_und_props();
    let ns: int = if v.script is Some { 1 } else { 0 };
    let nr: int = if v.region is Some { 1 } else { 0 };
    let n = 1 + ns + nr + v.variants.len();
    assert(t0.len() == n);
    assert(t[0] == h);
    if v.script is Some { assert(t[1] == v.script->0); }
    if v.region is Some { assert(t[1 + ns] == v.region->0); }
    assert forall|j: int| 0 <= j < v.variants.len() implies #[trigger] t[1 + ns + nr + j] == v.variants[j] by {}
    if rest.len() > 0 { assert(t[n] == rest[0]); }
    if v.script is None && t.len() > 1 {
        lemma_classes_disjoint(t[1]);
        if v.region is Some { assert(is_region(t[1])); }
        else if v.variants.len() > 0 { assert(t[1] == v.variants[0]); assert(is_variant_st(t[1])); }
        else { assert(t[1] == rest[0]); }
    }
    assert(has_script(t) == (v.script is Some));
    assert(region_pos(t) == 1 + ns);
    if v.region is None && t.len() > 1 + ns {
        lemma_classes_disjoint(t[1 + ns]);
        if v.variants.len() > 0 { assert(t[1 + ns] == v.variants[0]); assert(is_variant_st(t[1 + ns])); }
        else { assert(t[1 + ns] == rest[0]); }
    }
    assert(has_region(t) == (v.region is Some));
    assert(var_pos(t) == 1 + ns + nr);
    assert forall|i: int| var_pos(t) <= i < n implies is_variant_st(#[trigger] t[i]) by {
        assert(t[i] == v.variants[i - var_pos(t)]);
    }
    lemma_var_run(t, var_pos(t), n);
    assert(lid_end(t) == n);
    assert(lang_view(h) == v.lang) by { if v.lang is Some { assert(lower(h) == h); } }
    assert forall|x: Seq<u8>| #[trigger] v.variants.contains(x) <==> lid_var_member(t, x) by {
        if v.variants.contains(x) {
            let j = choose|j: int| 0 <= j < v.variants.len() && v.variants[j] == x;
            assert(t[var_pos(t) + j] == x);
            assert(lower(t[var_pos(t) + j]) == x);
        }
        if lid_var_member(t, x) {
            let i = choose|i: int| var_pos(t) <= i < lid_end(t) && x == lower(#[trigger] t[i]);
            assert(t[i] == v.variants[i - var_pos(t)]);
            assert(v.variants[i - var_pos(t)] == x);
        }
    }
}

// ---- C04: the canonical string is never longer than the input -------------------------------------------------------------
/// length of "t0-t1-...": the subtags plus one separator between neighbours
pub open spec fn jl(t: Seq<Seq<u8>>) -> int
    decreases t.len()
{
    if t.len() == 0 { 0 } else if t.len() == 1 { t[0].len() as int } else { t[0].len() + 1 + jl(t.skip(1)) }
}
/// sum of (1 + length) over a sequence of subtags
pub open spec fn wsum(s: Seq<Seq<u8>>) -> int
    decreases s.len()
{
    if s.len() == 0 { 0 } else { wsum(s.drop_last()) + 1 + s.last().len() }
}
pub proof fn lemma_wsum_concat(a: Seq<Seq<u8>>, b: Seq<Seq<u8>>)
    ensures wsum(a + b) == wsum(a) + wsum(b),
    decreases b.len(),
{
    if b.len() == 0 { assert(a + b =~= a); }
    else { assert((a + b).drop_last() =~= a + b.drop_last()); assert((a + b).last() == b.last()); lemma_wsum_concat(a, b.drop_last()); }
}
pub proof fn lemma_wsum_one(x: Seq<u8>)
    ensures wsum(seq![x]) == 1 + x.len(),
{
    assert(seq![x].drop_last() =~= Seq::<Seq<u8>>::empty());
    assert(seq![x].last() == x);
    assert(wsum(seq![x].drop_last()) == 0);
}
pub proof fn lemma_jl_wsum(t: Seq<Seq<u8>>)
    requires t.len() > 0,
    ensures jl(t) == wsum(t) - 1,
    decreases t.len(),
{
    if t.len() == 1 { assert(t =~= seq![t[0]]); lemma_wsum_one(t[0]); }
    else {
        lemma_jl_wsum(t.skip(1));
        assert(t =~= seq![t[0]] + t.skip(1));
        lemma_wsum_concat(seq![t[0]], t.skip(1));
        lemma_wsum_one(t[0]);
    }
}
pub proof fn lemma_split_len(b: Seq<u8>)
    ensures jl(subtags_of(b)) == b.len(), subtags_of(b).len() > 0,
    decreases b.len(),
{
    lemma_first_sep_bounds(b, sepf());
    lemma_split_nonempty(b, sepf());
    let i = first_sep_by(b, sepf()) as int;
    if i >= b.len() {
        assert(subtags_of(b) =~= seq![b]);
    } else {
        let rest = b.skip(i + 1);
        lemma_split_len(rest);
        let t = subtags_of(b);
        assert(t =~= seq![b.take(i)] + subtags_of(rest));
        assert(t.len() >= 2);
        assert(t.skip(1) =~= subtags_of(rest));
        assert(t[0] == b.take(i));
    }
}
pub proof fn lemma_dash_join_len(s: Seq<Seq<u8>>)
    ensures dash_join(s).len() == wsum(s),
    decreases s.len(),
{
    if s.len() > 0 { lemma_dash_join_len(s.drop_last()); }
}
pub proof fn lemma_wsum_remove(s: Seq<Seq<u8>>, p: int)
    requires 0 <= p < s.len(),
    ensures wsum(s.remove(p)) + 1 + s[p].len() == wsum(s),
    decreases s.len(),
{
    if p == s.len() - 1 {
        assert(s.remove(p) =~= s.drop_last());
    } else {
        lemma_wsum_remove(s.drop_last(), p);
        assert(s.remove(p).drop_last() =~= s.drop_last().remove(p));
        assert(s.remove(p).last() == s.last());
        assert(s.drop_last()[p] == s[p]);
    }
}
pub open spec fn wsum_range(t: Seq<Seq<u8>>, a: int, e: int) -> int
    decreases e - a
{
    if e <= a { 0 } else { wsum_range(t, a, e - 1) + 1 + t[e - 1].len() }
}
pub open spec fn occurs_lower(t: Seq<Seq<u8>>, a: int, e: int, x: Seq<u8>) -> bool { exists|i: int| a <= i < e && x == lower(#[trigger] t[i]) }
/// distinct values that all occur (lower-cased) among the subtags t[a..e) weigh no more than those subtags
pub proof fn lemma_wsum_injection(vs: Seq<Seq<u8>>, t: Seq<Seq<u8>>, a: int, e: int)
    requires
        0 <= a <= e <= t.len(), vs.no_duplicates(),
        forall|j: int| 0 <= j < vs.len() ==> occurs_lower(t, a, e, #[trigger] vs[j]),
    ensures wsum(vs) <= wsum_range(t, a, e),
    decreases e - a,
{
    if e == a {
        if vs.len() > 0 { assert(occurs_lower(t, a, e, vs[0])); }
    } else {
        let x = lower(t[e - 1]);
        assert(x.len() == t[e - 1].len());
        if vs.contains(x) {
            let p = choose|p: int| 0 <= p < vs.len() && vs[p] == x;
            let vs2 = vs.remove(p);
            assert(vs2.no_duplicates()) by {
                assert forall|i: int, j: int| 0 <= i < vs2.len() && 0 <= j < vs2.len() && i != j implies vs2[i] != vs2[j] by {
                    let oi = if i < p { i } else { i + 1 }; let oj = if j < p { j } else { j + 1 };
                    assert(vs2[i] == vs[oi] && vs2[j] == vs[oj]);
                }
            }
            assert forall|j: int| 0 <= j < vs2.len() implies occurs_lower(t, a, e - 1, #[trigger] vs2[j]) by {
                let oj = if j < p { j } else { j + 1 };
                assert(vs2[j] == vs[oj]);
                assert(occurs_lower(t, a, e, vs[oj]));
                let i = choose|i: int| a <= i < e && vs[oj] == lower(#[trigger] t[i]);
                if i == e - 1 { assert(vs[oj] == x); assert(vs[oj] == vs[p]); assert(false); }
            }
            lemma_wsum_injection(vs2, t, a, e - 1);
            lemma_wsum_remove(vs, p);
        } else {
            assert forall|j: int| 0 <= j < vs.len() implies occurs_lower(t, a, e - 1, #[trigger] vs[j]) by {
                assert(occurs_lower(t, a, e, vs[j]));
                let i = choose|i: int| a <= i < e && vs[j] == lower(#[trigger] t[i]);
                if i == e - 1 { assert(vs.contains(vs[j])); assert(false); }
            }
            lemma_wsum_injection(vs, t, a, e - 1);
        }
    }
}
pub proof fn lemma_wsum_range_split(t: Seq<Seq<u8>>, a: int, m: int, e: int)
    requires 0 <= a <= m <= e <= t.len(),
    ensures wsum_range(t, a, e) == wsum_range(t, a, m) + wsum_range(t, m, e),
    decreases e - m,
{
    if e > m { lemma_wsum_range_split(t, a, m, e - 1); }
}
pub proof fn lemma_wsum_range_all(t: Seq<Seq<u8>>, e: int)
    requires 0 <= e <= t.len(),
    ensures wsum_range(t, 0, e) == wsum(t.take(e)),
    decreases e,
{
    if e > 0 {
        lemma_wsum_range_all(t, e - 1);
        assert(t.take(e).drop_last() =~= t.take(e - 1));
        assert(t.take(e).last() == t[e - 1]);
    } else { assert(t.take(0) =~= Seq::<Seq<u8>>::empty()); }
}
pub proof fn lemma_strict_sorted_no_dup(s: Seq<Seq<u8>>)
    requires strictly_sorted(s),
    ensures s.no_duplicates(),
{
    assert forall|i: int, j: int| 0 <= i < s.len() && 0 <= j < s.len() && i != j implies s[i] != s[j] by {
        if i < j { assert(lex_lt(s[i], s[j])); } else { assert(lex_lt(s[j], s[i])); }
    }
}

/// C04: for every accepted input the canonical string of the prescribed value is no longer than the input
pub proof fn lemma_lid_ser_not_longer(b: Seq<u8>, v: LidView)
    requires lid_accepts(subtags_of(b), false), lid_expected(subtags_of(b), v),
    ensures lid_ser(v).len() <= b.len(),
{
    let t = subtags_of(b);
    let n = t.len() as int;
    lemma_split_len(b);
    lemma_jl_wsum(t);
    lemma_und_props();
    lemma_var_run_bounds(t, var_pos(t));
    let vp = var_pos(t);
    assert(lid_end(t) == n);
    // output side
    lemma_lid_ser_is_join(v);
    let rest = opt_seq(v.script) + opt_seq(v.region) + v.variants;
    lemma_dash_join_len(rest);
    lemma_wsum_concat(opt_seq(v.script) + opt_seq(v.region), v.variants);
    lemma_wsum_concat(opt_seq(v.script), opt_seq(v.region));
    if v.script is Some { lemma_wsum_one(v.script->0); }
    if v.region is Some { lemma_wsum_one(v.region->0); }
    assert(lang_text(v.lang).len() == t[0].len()) by { assert(lower(t[0]).len() == t[0].len()); }
    if has_script(t) { assert(title(t[1]).len() == t[1].len()); }
    if has_region(t) { assert(upper(t[region_pos(t)]).len() == t[region_pos(t)].len()); }
    // the variants: distinct, each the lower-cased form of one of the variant subtags
    lemma_strict_sorted_no_dup(v.variants);
    assert forall|j: int| 0 <= j < v.variants.len() implies occurs_lower(t, vp, n, #[trigger] v.variants[j]) by {
        assert(v.variants.contains(v.variants[j]));
        assert(lid_var_member(t, v.variants[j]));
        let i = choose|i: int| var_pos(t) <= i < lid_end(t) && v.variants[j] == lower(#[trigger] t[i]);
        assert(vp <= i < n);
    }
    lemma_wsum_injection(v.variants, t, vp, n);
    // input side: the subtags before the variants, one by one
    lemma_wsum_range_split(t, 0, vp, n);
    lemma_wsum_range_all(t, n);
    assert(t.take(n) =~= t);
    assert(wsum_range(t, 0, vp) == (1 + t[0].len()) + (if has_script(t) { 1 + t[1].len() } else { 0 }) + (if has_region(t) { 1 + t[region_pos(t)].len() } else { 0 })) by {
        reveal_with_fuel(wsum_range, 4);
    }
}
