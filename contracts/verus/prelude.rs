// =====================================================================================
// prelude.rs — shared by both Verus crates (inserted at the crate root inside verus!{}).
// Part 1: external types + the ASSUMED contracts of std / alloc / tinystr (trusted base).
// Part 2: the spec vocabulary, written from the property statements (UTS #35 productions).
// =====================================================================================

// ---- Part 1: external types -----------------------------------------------------------

#[verifier::external_type_specification]
#[verifier::external_body]
pub struct ExTinyAsciiStr<const N: usize>(tinystr::TinyAsciiStr<N>);

/// The bytes of a TinyAsciiStr (without the NUL padding).  Uninterpreted: everything Verus
/// knows about it comes from leaf contracts that Kani proves on the real tinystr code.
pub uninterp spec fn text<const N: usize>(t: tinystr::TinyAsciiStr<N>) -> Seq<u8>;

/// ASSUMED (Kani: leaf_tinystr_eq_is_text_eq): a TinyAsciiStr is determined by its text.
pub broadcast proof fn axiom_text_injective<const N: usize>(a: tinystr::TinyAsciiStr<N>, b: tinystr::TinyAsciiStr<N>)
    ensures (#[trigger] text(a) == #[trigger] text(b)) ==> a == b,
{ admit(); }

#[verifier::external_type_specification]
#[verifier::external_body]
#[verifier::reject_recursive_types(I)]
pub struct ExPeekable<I: Iterator>(std::iter::Peekable<I>);

/// Ghost view of a Peekable: the sequence of items it has yet to yield.
pub uninterp spec fn rest<I: Iterator>(p: std::iter::Peekable<I>) -> Seq<I::Item>;

pub assume_specification<I: Iterator>[ std::iter::Peekable::<I>::peek ](p: &mut std::iter::Peekable<I>) -> (r: Option<&I::Item>)
    ensures
        rest(*final(p)) == rest(*old(p)),
        rest(*old(p)).len() == 0 ==> r is None,
        rest(*old(p)).len() > 0 ==> r == Some(&rest(*old(p))[0]),
;

pub assume_specification<I: Iterator>[ <std::iter::Peekable<I> as Iterator>::next ](p: &mut std::iter::Peekable<I>) -> (r: Option<I::Item>)
    ensures
        rest(*old(p)).len() == 0 ==> r is None && rest(*final(p)) == rest(*old(p)),
        rest(*old(p)).len() > 0 ==> r == Some(rest(*old(p))[0]) && rest(*final(p)) == rest(*old(p)).skip(1),
;

// ---- slice::split(..).peekable(): ASSUMED std contract, parametric in the closure's verified ensures ----
#[verifier::external_type_specification]
#[verifier::external_body]
#[verifier::reject_recursive_types(T)]
#[verifier::reject_recursive_types(P)]
pub struct ExSplit<'a, T: 'a, P: FnMut(&T) -> bool>(std::slice::Split<'a, T, P>);

pub uninterp spec fn split_items<'a, T, P: FnMut(&T) -> bool>(s: std::slice::Split<'a, T, P>) -> Seq<&'a [T]>;

pub open spec fn views<T>(s: Seq<&[T]>) -> Seq<Seq<T>> { Seq::new(s.len(), |i: int| s[i]@) }

/// index of the first element satisfying `sep`, or s.len()
pub open spec fn first_sep_by<T>(s: Seq<T>, sep: spec_fn(T) -> bool) -> nat
    decreases s.len()
{
    if s.len() == 0 { 0 } else if sep(s[0]) { 0 } else { 1 + first_sep_by(s.skip(1), sep) }
}
/// the pieces between separators (always at least one piece), as `slice::split` documents
pub open spec fn split_by<T>(s: Seq<T>, sep: spec_fn(T) -> bool) -> Seq<Seq<T>>
    decreases s.len()
{
    let i = first_sep_by(s, sep) as int;
    if i >= s.len() { seq![s] } else { seq![s.take(i)] + split_by(s.skip(i + 1), sep) }
}

pub assume_specification<'a, T, P: FnMut(&T) -> bool>[ <[T]>::split::<P> ](s: &'a [T], pred: P) -> (r: std::slice::Split<'a, T, P>)
    requires
        forall|c: &T| pred.requires((c,)),
    ensures
        forall|sep: spec_fn(T) -> bool| (forall|c: &T, b: bool| pred.ensures((c,), b) ==> b == sep(*c))
            ==> views(split_items(r)) == #[trigger] split_by(s@, sep),
;

/// R6: `x.peekable()` is rewritten to `vf_peekable(x)` (Verus cannot attach a contract to a provided
/// method of std's Iterator).  ASSUMED: the Peekable yields exactly the items of the iterator.
#[verifier::external_body]
pub fn vf_peekable<I: Iterator>(it: I) -> (r: std::iter::Peekable<I>)
    ensures rest(r) == iter_items(it),
{ it.peekable() }
pub uninterp spec fn iter_items<I: Iterator>(it: I) -> Seq<I::Item>;
/// ASSUMED: seen as a plain iterator, a Peekable yields exactly `rest`
pub broadcast proof fn axiom_peekable_items<I: Iterator>(p: std::iter::Peekable<I>)
    ensures #[trigger] iter_items(p) == rest(p),
{ admit(); }
/// ASSUMED: the items of a `slice::Split` are its pieces
pub broadcast proof fn axiom_split_iter_items<'a, T, P: FnMut(&T) -> bool>(s: std::slice::Split<'a, T, P>)
    ensures #[trigger] iter_items(s) == split_items(s),
{ admit(); }

/// R10: `for P in it { B }` with `it: &mut impl Iterator` is rewritten to `while let Some(P) = vf_iter_next(it) { B }`
/// (the language's desugaring of `for`).  ASSUMED: an iterator yields exactly `iter_items`, one item per call, then None -
/// the same ghost-sequence model `Peekable::next` is given above (consistent with it by axiom_peekable_items).
#[verifier::external_body]
pub fn vf_iter_next<I: Iterator>(it: &mut I) -> (r: Option<I::Item>)
    ensures
        iter_items(*old(it)).len() == 0 ==> r is None && iter_items(*final(it)) == iter_items(*old(it)),
        iter_items(*old(it)).len() > 0 ==> r == Some(iter_items(*old(it))[0]) && iter_items(*final(it)) == iter_items(*old(it)).skip(1),
{ it.next() }

/// The total order `Ord::cmp` induces on T, as a spec relation.  Uninterpreted; pinned down
/// per type by an axiom whose statement Kani proves on the real derived `Ord` (U-SUB/ord).
pub uninterp spec fn ord_le<T>(a: T, b: T) -> bool;

pub open spec fn sorted_by_ord<T>(s: Seq<T>) -> bool {
    forall|i: int, j: int| 0 <= i <= j < s.len() ==> ord_le(#[trigger] s[i], #[trigger] s[j])
}

/// ASSUMED std contract: sort_unstable yields a permutation sorted by `Ord`.
pub assume_specification<T: Ord>[ <[T]>::sort_unstable ](s: &mut [T])
    ensures
        sorted_by_ord(final(s)@),
        final(s)@.to_multiset() == old(s)@.to_multiset(),
;

/// `b` is obtained from `a` by deleting elements equal to their predecessor.
pub open spec fn dedup_of<T>(a: Seq<T>, b: Seq<T>) -> bool {
    &&& b.len() <= a.len()
    &&& (a.len() > 0 ==> b.len() > 0 && b[0] == a[0])
    &&& forall|x: T| a.contains(x) <==> b.contains(x)
    &&& forall|i: int| 0 <= i < b.len() - 1 ==> #[trigger] b[i] != b[i + 1]
    &&& (sorted_by_ord(a) ==> sorted_by_ord(b))
}

/// ASSUMED std contract (for element types whose `PartialEq` is structural equality).
pub assume_specification<T: PartialEq, A: std::alloc::Allocator>[ Vec::<T, A>::dedup ](v: &mut Vec<T, A>)
    ensures
        dedup_of(old(v)@, final(v)@),
;

pub assume_specification<T, A: std::alloc::Allocator>[ Vec::<T, A>::into_boxed_slice ](v: Vec<T, A>) -> (r: Box<[T], A>)
    ensures
        r@ == v@,
;

// ---- Part 2: spec vocabulary ------------------------------------------------------------

pub open spec fn alpha(c: u8) -> bool { (0x41 <= c && c <= 0x5a) || (0x61 <= c && c <= 0x7a) }
pub open spec fn digit(c: u8) -> bool { 0x30 <= c && c <= 0x39 }
pub open spec fn alnum(c: u8) -> bool { alpha(c) || digit(c) }

pub open spec fn all_alpha(s: Seq<u8>) -> bool { forall|i: int| 0 <= i < s.len() ==> alpha(#[trigger] s[i]) }
pub open spec fn all_digit(s: Seq<u8>) -> bool { forall|i: int| 0 <= i < s.len() ==> digit(#[trigger] s[i]) }
pub open spec fn all_alnum(s: Seq<u8>) -> bool { forall|i: int| 0 <= i < s.len() ==> alnum(#[trigger] s[i]) }

pub open spec fn lower_b(c: u8) -> u8 { if 0x41 <= c && c <= 0x5a { (c + 32) as u8 } else { c } }
pub open spec fn upper_b(c: u8) -> u8 { if 0x61 <= c && c <= 0x7a { (c - 32) as u8 } else { c } }
pub open spec fn lower(s: Seq<u8>) -> Seq<u8> { Seq::new(s.len(), |i: int| lower_b(s[i])) }
pub open spec fn upper(s: Seq<u8>) -> Seq<u8> { Seq::new(s.len(), |i: int| upper_b(s[i])) }
pub open spec fn title(s: Seq<u8>) -> Seq<u8> {
    Seq::new(s.len(), |i: int| if i == 0 { upper_b(s[i]) } else { lower_b(s[i]) })
}

pub open spec fn und() -> Seq<u8> { seq![0x75u8, 0x6eu8, 0x64u8] }
pub open spec fn true_word() -> Seq<u8> { seq![0x74u8, 0x72u8, 0x75u8, 0x65u8] }

// UTS #35 productions quoted in C02 / C15
pub open spec fn is_language(s: Seq<u8>) -> bool {
    all_alpha(s) && (s.len() == 2 || s.len() == 3 || (5 <= s.len() && s.len() <= 8))
}
pub open spec fn is_script(s: Seq<u8>) -> bool { all_alpha(s) && s.len() == 4 }
pub open spec fn is_region(s: Seq<u8>) -> bool { (all_alpha(s) && s.len() == 2) || (all_digit(s) && s.len() == 3) }
pub open spec fn is_variant_st(s: Seq<u8>) -> bool {
    (all_alnum(s) && 5 <= s.len() && s.len() <= 8) || (s.len() == 4 && digit(s[0]) && all_alnum(s))
}
// C03 mechanisms
pub open spec fn is_ukey(s: Seq<u8>) -> bool { s.len() == 2 && alnum(s[0]) && alpha(s[1]) }
pub open spec fn is_utype(s: Seq<u8>) -> bool { all_alnum(s) && 3 <= s.len() && s.len() <= 8 }
pub open spec fn is_tkey(s: Seq<u8>) -> bool { s.len() == 2 && alpha(s[0]) && digit(s[1]) }
/// what the -t- loop takes for the start of a tlang (2-8 letters; 4 letters is then rejected as a language)
pub open spec fn lang_shaped(s: Seq<u8>) -> bool { all_alpha(s) && 2 <= s.len() && s.len() <= 8 }
pub open spec fn is_private(s: Seq<u8>) -> bool { all_alnum(s) && 1 <= s.len() && s.len() <= 8 }

/// language subtag → stored value: lower case, `und` is the empty language
pub open spec fn lang_view(s: Seq<u8>) -> Option<Seq<u8>> {
    if lower(s) == und() { None } else { Some(lower(s)) }
}

// byte-wise lexicographic order (what derived Ord on the tinystr types is; Kani: U-SUB/ord)
pub open spec fn lex_le(a: Seq<u8>, b: Seq<u8>) -> bool
    decreases a.len()
{
    if a.len() == 0 { true }
    else if b.len() == 0 { false }
    else if a[0] < b[0] { true }
    else if a[0] > b[0] { false }
    else { lex_le(a.skip(1), b.skip(1)) }
}
pub open spec fn lex_lt(a: Seq<u8>, b: Seq<u8>) -> bool { lex_le(a, b) && a != b }

pub open spec fn strictly_sorted(s: Seq<Seq<u8>>) -> bool {
    forall|i: int, j: int| 0 <= i < j < s.len() ==> lex_lt(#[trigger] s[i], #[trigger] s[j])
}
pub open spec fn weakly_sorted(s: Seq<Seq<u8>>) -> bool {
    forall|i: int, j: int| 0 <= i <= j < s.len() ==> lex_le(#[trigger] s[i], #[trigger] s[j])
}

/// ASSUMED: `AsRef::as_ref` is a pure function of the value
#[verifier::external_trait_specification]
pub trait ExAsRef<T: core::marker::PointeeSized>: core::marker::PointeeSized {
    type ExternalTraitSpecificationFor: AsRef<T>;
    fn as_ref(&self) -> (r: &T)
        ensures r == as_ref_spec::<Self, T>(self);
}
pub uninterp spec fn as_ref_spec<S: core::marker::PointeeSized, T: core::marker::PointeeSized>(s: &S) -> &T;
/// ASSUMED (std): `<[T] as AsRef<[T]>>::as_ref` is the identity
pub proof fn axiom_as_ref_slice(v: &[u8])
    ensures as_ref_spec::<&[u8], [u8]>(&v)@ == v@,
{ admit(); }
/// ASSUMED (std): `<str as AsRef<[u8]>>::as_ref` is `as_bytes`
pub proof fn axiom_as_ref_str(v: &str)
    ensures as_ref_spec::<&str, [u8]>(&v)@ == vstd::string::StringSliceAdditionalSpecFns::spec_bytes(v),
{ admit(); }
/// the bytes an `S: AsRef<[u8]>` argument stands for
pub open spec fn bytes_of<S>(s: S) -> Seq<u8> { as_ref_spec::<S, [u8]>(&s)@ }

/// subtag sequence of an iterator over byte slices
pub open spec fn toks(s: Seq<&[u8]>) -> Seq<Seq<u8>> { views(s) }

/// C02: sep = '-' or '_'
pub open spec fn is_sep(c: u8) -> bool { c == 0x2d || c == 0x5f }
/// the subtags of a byte string
pub open spec fn subtags_of(s: Seq<u8>) -> Seq<Seq<u8>> { split_by(s, |c: u8| is_sep(c)) }

pub proof fn lemma_toks_skip(s: Seq<&[u8]>, k: int)
    requires 0 <= k <= s.len(),
    ensures toks(s.skip(k)) =~= toks(s).skip(k),
{}

// ---- language-identifier grammar over subtag sequences (t[0] is the language subtag) ------
pub open spec fn has_script(t: Seq<Seq<u8>>) -> bool { t.len() > 1 && is_script(t[1]) }
pub open spec fn region_pos(t: Seq<Seq<u8>>) -> int { if has_script(t) { 2 } else { 1 } }
pub open spec fn has_region(t: Seq<Seq<u8>>) -> bool { t.len() > region_pos(t) && is_region(t[region_pos(t)]) }
pub open spec fn var_pos(t: Seq<Seq<u8>>) -> int { region_pos(t) + if has_region(t) { 1int } else { 0int } }
pub open spec fn var_run(t: Seq<Seq<u8>>, from: int) -> int
    decreases t.len() - from
{
    if 0 <= from < t.len() && is_variant_st(t[from]) { 1 + var_run(t, from + 1) } else { 0 }
}
/// number of subtags the language-identifier production consumes
pub open spec fn lid_end(t: Seq<Seq<u8>>) -> int { var_pos(t) + var_run(t, var_pos(t)) }

pub proof fn lemma_var_run(t: Seq<Seq<u8>>, a: int, k: int)
    requires
        0 <= a <= k <= t.len(),
        forall|i: int| a <= i < k ==> is_variant_st(#[trigger] t[i]),
        k == t.len() || !is_variant_st(t[k]),
    ensures var_run(t, a) == k - a,
    decreases k - a,
{
    if a < k { lemma_var_run(t, a + 1, k); }
}

pub proof fn lemma_var_run_bounds(t: Seq<Seq<u8>>, a: int)
    requires 0 <= a,
    ensures 0 <= var_run(t, a), a + var_run(t, a) <= t.len() || var_run(t, a) == 0,
        forall|i: int| a <= i < a + var_run(t, a) ==> is_variant_st(#[trigger] t[i]),
        a + var_run(t, a) < t.len() ==> !is_variant_st(t[a + var_run(t, a)]),
    decreases t.len() - a,
{
    if a < t.len() && is_variant_st(t[a]) { lemma_var_run_bounds(t, a + 1); }
}

pub struct LidView {
    pub lang: Option<Seq<u8>>,
    pub script: Option<Seq<u8>>,
    pub region: Option<Seq<u8>>,
    pub variants: Seq<Seq<u8>>,
}

/// the value C02 prescribes for an accepted subtag sequence; variants are given as the
/// *set* of lower-cased variant subtags (a strictly sorted sequence is determined by its set)
pub open spec fn lid_expected(t: Seq<Seq<u8>>, v: LidView) -> bool {
    &&& v.lang == lang_view(t[0])
    &&& v.script == (if has_script(t) { Some(title(t[1])) } else { None::<Seq<u8>> })
    &&& v.region == (if has_region(t) { Some(upper(t[region_pos(t)])) } else { None::<Seq<u8>> })
    &&& strictly_sorted(v.variants)
    &&& forall|x: Seq<u8>| #[trigger] v.variants.contains(x) <==> lid_var_member(t, x)
}
/// x is the lower-cased form of one of the variant subtags of t
pub open spec fn lid_var_member(t: Seq<Seq<u8>>, x: Seq<u8>) -> bool {
    exists|i: int| var_pos(t) <= i < lid_end(t) && x == lower(#[trigger] t[i])
}

pub open spec fn lowered_run(t: Seq<Seq<u8>>, a: int, k: int) -> Seq<Seq<u8>> {
    Seq::new((k - a) as nat, |j: int| lower(t[a + j]))
}

/// the production for the language identifier accepts this subtag sequence
pub open spec fn lid_accepts(t: Seq<Seq<u8>>, allow_extension: bool) -> bool {
    t.len() > 0 && is_language(t[0]) && (allow_extension || lid_end(t) >= t.len())
}
pub open spec fn lid_must_reject_trailing(t: Seq<Seq<u8>>, allow_extension: bool) -> bool {
    t.len() > 0 && is_language(t[0]) && !allow_extension && lid_end(t) < t.len()
}

/// the subtag classes are pairwise disjoint, so the order in which the code tries them is immaterial
pub proof fn lemma_classes_disjoint(s: Seq<u8>)
    ensures
        !(is_script(s) && is_region(s)),
        !(is_script(s) && is_variant_st(s)),
        !(is_region(s) && is_variant_st(s)),
{
    if is_script(s) && is_variant_st(s) { assert(alpha(s[0])); assert(digit(s[0])); }
}

pub proof fn lemma_lex_le_antisym(a: Seq<u8>, b: Seq<u8>)
    requires lex_le(a, b), lex_le(b, a),
    ensures a == b,
    decreases a.len(),
{
    if a.len() == 0 {
        assert(b.len() == 0);
        assert(a =~= b);
    } else {
        lemma_lex_le_antisym(a.skip(1), b.skip(1));
        assert(a =~= seq![a[0]] + a.skip(1));
        assert(b =~= seq![b[0]] + b.skip(1));
    }
}

pub proof fn lemma_lex_le_trans(a: Seq<u8>, b: Seq<u8>, c: Seq<u8>)
    requires lex_le(a, b), lex_le(b, c),
    ensures lex_le(a, c),
    decreases a.len(),
{
    if a.len() > 0 && b.len() > 0 && c.len() > 0 && a[0] == b[0] && b[0] == c[0] {
        lemma_lex_le_trans(a.skip(1), b.skip(1), c.skip(1));
    }
}

pub proof fn lemma_lex_le_refl(a: Seq<u8>)
    ensures lex_le(a, a),
    decreases a.len(),
{
    if a.len() > 0 { lemma_lex_le_refl(a.skip(1)); }
}

pub proof fn lemma_lex_le_total(a: Seq<u8>, b: Seq<u8>)
    ensures lex_le(a, b) || lex_le(b, a),
    decreases a.len(),
{
    if a.len() > 0 && b.len() > 0 && a[0] == b[0] { lemma_lex_le_total(a.skip(1), b.skip(1)); }
}

pub proof fn lemma_lex_lt_trans(a: Seq<u8>, b: Seq<u8>, c: Seq<u8>)
    requires lex_lt(a, b), lex_lt(b, c),
    ensures lex_lt(a, c),
{
    lemma_lex_le_trans(a, b, c);
    if a == c { lemma_lex_le_antisym(a, b); }
}

/// adjacent-strict implies pairwise strict
pub proof fn lemma_adjacent_strict_is_strict(s: Seq<Seq<u8>>)
    requires forall|i: int| 0 <= i < s.len() - 1 ==> lex_lt(#[trigger] s[i], s[i + 1]),
    ensures strictly_sorted(s),
{
    assert forall|i: int, j: int| 0 <= i < j < s.len() implies lex_lt(#[trigger] s[i], #[trigger] s[j]) by {
        lemma_adjacent_strict_range(s, i, j);
    }
}
pub proof fn lemma_adjacent_strict_range(s: Seq<Seq<u8>>, i: int, j: int)
    requires forall|i: int| 0 <= i < s.len() - 1 ==> lex_lt(#[trigger] s[i], s[i + 1]), 0 <= i < j < s.len(),
    ensures lex_lt(s[i], s[j]),
    decreases j - i,
{
    if j > i + 1 {
        lemma_adjacent_strict_range(s, i, j - 1);
        lemma_lex_lt_trans(s[i], s[j - 1], s[j]);
    }
}

pub proof fn lemma_split_nonempty<T>(s: Seq<T>, sep: spec_fn(T) -> bool)
    ensures split_by(s, sep).len() >= 1,
    decreases s.len(),
{
    let i = first_sep_by(s, sep) as int;
    lemma_first_sep_bounds(s, sep);
    if i < s.len() { lemma_split_nonempty(s.skip(i + 1), sep); }
}
pub proof fn lemma_first_sep_bounds<T>(s: Seq<T>, sep: spec_fn(T) -> bool)
    ensures 0 <= first_sep_by(s, sep) <= s.len(),
    decreases s.len(),
{
    if s.len() > 0 && !sep(s[0]) { lemma_first_sep_bounds(s.skip(1), sep); }
}

// ---- more ASSUMED std contracts (slices / vectors of types whose PartialEq is structural and whose Ord is `ord_le`) ----
pub open spec fn ord_lt<T>(a: T, b: T) -> bool { ord_le(a, b) && a != b }

/// ASSUMED std contract: binary_search on a slice sorted by `Ord`
pub assume_specification<T: Ord>[ <[T]>::binary_search ](s: &[T], x: &T) -> (r: Result<usize, usize>)
    ensures
        sorted_by_ord(s@) ==> match r {
            Ok(i) => i < s@.len() && s@[i as int] == *x && s@.contains(*x),
            Err(i) => i <= s@.len() && !s@.contains(*x)
                && (forall|j: int| 0 <= j < i ==> ord_lt(#[trigger] s@[j], *x))
                && (forall|j: int| i <= j < s@.len() ==> ord_lt(*x, #[trigger] s@[j])),
        },
;
/// ASSUMED std contract: slice::contains for element types whose PartialEq is structural equality
pub assume_specification<T: PartialEq>[ <[T]>::contains ](s: &[T], x: &T) -> (r: bool)
    ensures r == s@.contains(*x),
;
pub assume_specification<T: Clone>[ <[T]>::to_vec ](s: &[T]) -> (r: Vec<T>)
    ensures r@ == s@,
;

/// ASSUMED std contract: Option::map_or returns the default for None, else the closure's result
pub assume_specification<T, U, F: FnOnce(T) -> U>[ Option::<T>::map_or ](o: Option<T>, d: U, f: F) -> (r: U)
    requires
        o is Some ==> f.requires((o->0,)),
    ensures
        o is None ==> r == d,
        o is Some ==> f.ensures((o->0,), r),
;

/// element-wise equality of two sequences under the element type's `PartialEq`
pub open spec fn slice_eq<P: PartialEq>(a: Seq<P>, b: Seq<P>) -> bool {
    a.len() == b.len() && forall|i: int| 0 <= i < a.len() ==> vstd::std_specs::cmp::PartialEqSpec::eq_spec(&#[trigger] a[i], &b[i])
}
/// `==` on `Option<Box<[P]>>`
pub open spec fn obs_eq<P: PartialEq>(a: Option<Box<[P]>>, b: Option<Box<[P]>>) -> bool {
    match (a, b) { (None, None) => true, (Some(x), Some(y)) => slice_eq(x@, y@), _ => false }
}
/// ASSUMED std semantics: `Box<[P]> == Box<[P]>` compares the two slices element by element with `P::eq`
pub proof fn axiom_box_slice_eq<P: PartialEq>()
    ensures
        <Box<[P]> as vstd::std_specs::cmp::PartialEqSpec>::obeys_eq_spec() == <P as vstd::std_specs::cmp::PartialEqSpec>::obeys_eq_spec(),
        forall|a: Box<[P]>, b: Box<[P]>| #[trigger] vstd::std_specs::cmp::PartialEqSpec::eq_spec(&a, &b) == slice_eq(a@, b@),
{ admit(); }

/// ASSUMED: `Borrow::borrow` is a pure function of the value
#[verifier::external_trait_specification]
pub trait ExBorrow<Borrowed: ?Sized> {
    type ExternalTraitSpecificationFor: core::borrow::Borrow<Borrowed>;
    fn borrow(&self) -> (r: &Borrowed)
        ensures r == borrow_spec::<Self, Borrowed>(self);
}
pub uninterp spec fn borrow_spec<S: core::marker::PointeeSized, T: core::marker::PointeeSized>(s: &S) -> &T;
/// ASSUMED (std): the reflexive `impl<T> Borrow<T> for T` is the identity
pub proof fn axiom_borrow_id<T>(x: &T)
    ensures borrow_spec::<T, T>(x) == x,
{ admit(); }

/// ASSUMED std contract: Option::map_or_else calls exactly one of the two closures
pub assume_specification<T, U, D: FnOnce() -> U, F: FnOnce(T) -> U>[ Option::<T>::map_or_else ](o: Option<T>, d: D, f: F) -> (r: U)
    requires
        o is None ==> d.requires(()),
        o is Some ==> f.requires((o->0,)),
    ensures
        o is None ==> d.ensures((), r),
        o is Some ==> f.ensures((o->0,), r),
;

// ---- Display / Formatter model (C04): the bytes a Formatter has received so far ----------------------
pub uninterp spec fn fmt_out(f: std::fmt::Formatter) -> Seq<u8>;
/// bytes of an ASCII string
pub open spec fn chars_bytes(s: Seq<char>) -> Seq<u8> { Seq::new(s.len(), |i: int| s[i] as u8) }
pub open spec fn str_bytes(s: &str) -> Seq<u8> { chars_bytes(s@) }

/// ASSUMED std contracts: write_str / write_char append exactly the given text
pub assume_specification<'a>[ std::fmt::Formatter::<'a>::write_str ](f: &mut std::fmt::Formatter<'a>, s: &str) -> (r: std::fmt::Result)
    ensures r is Ok ==> fmt_out(*final(f)) == fmt_out(*old(f)) + str_bytes(s),
;
pub assume_specification<'a>[ <std::fmt::Formatter<'a> as std::fmt::Write>::write_char ](f: &mut std::fmt::Formatter<'a>, c: char) -> (r: std::fmt::Result)
    ensures r is Ok && (c as u32) < 128 ==> fmt_out(*final(f)) == fmt_out(*old(f)).push(c as u8),
;
/// ASSUMED (Kani langid_leaf leaf_deref_is_text): a TinyAsciiStr derefs to the &str holding its text
pub assume_specification<const N: usize>[ <tinystr::TinyAsciiStr<N> as std::ops::Deref>::deref ](t: &tinystr::TinyAsciiStr<N>) -> (r: &str)
    ensures str_bytes(r) == text(*t),
;
pub open spec fn dash() -> Seq<u8> { seq![0x2du8] }
/// "-a-b-c" for [a, b, c]
pub open spec fn dash_join(s: Seq<Seq<u8>>) -> Seq<u8>
    decreases s.len()
{
    if s.len() == 0 { Seq::empty() } else { dash_join(s.drop_last()) + dash() + s.last() }
}
pub open spec fn opt_dash(o: Option<Seq<u8>>) -> Seq<u8> { match o { Some(s) => dash() + s, None => Seq::empty() } }
/// C04: the canonical serialisation of a language identifier
pub open spec fn lang_text(o: Option<Seq<u8>>) -> Seq<u8> { match o { Some(s) => s, None => und() } }
pub open spec fn lid_ser(v: LidView) -> Seq<u8> {
    lang_text(v.lang) + opt_dash(v.script) + opt_dash(v.region) + dash_join(v.variants)
}

/// vstd specifies `x.to_string()` by the uninterpreted relation to_string_from_display_ensures(x, result).
/// Per type we link it (ASSUMED: to_string is the output of Display::fmt on an empty buffer), by an axiom that
/// restates the VERIFIED contract of that type's `fmt`, to the serialisation spec function.
pub open spec fn to_string_is<T: std::fmt::Display + ?Sized>(x: &T, bytes: Seq<u8>) -> bool {
    forall|r: String| #[trigger] vstd::string::to_string_from_display_ensures::<T>(x, r) ==> r@ == bytes_chars(bytes)
}
pub open spec fn bytes_chars(b: Seq<u8>) -> Seq<char> { Seq::new(b.len(), |i: int| b[i] as char) }
pub proof fn lemma_bytes_chars_inverse(b: Seq<u8>)
    ensures chars_bytes(bytes_chars(b)) == b,
{
    assert forall|i: int| 0 <= i < b.len() implies (b[i] as char) as u8 == b[i] by {}
    assert(chars_bytes(bytes_chars(b)) =~= b);
}

/// what `{}` formatting of a value appends (its Display output); uninterpreted, linked per type by axioms that
/// restate the verified contract of that type's `fmt`
pub uninterp spec fn display_bytes<T: ?Sized>(s: &T) -> Seq<u8>;
/// ASSUMED (std): Display for &T delegates to T
pub broadcast proof fn axiom_display_ref<T>(x: &&T)
    ensures #[trigger] display_bytes::<&T>(x) == display_bytes::<T>(*x),
{ admit(); }
/// ASSUMED (tinystr): a TinyAsciiStr displays as its text
pub broadcast proof fn axiom_display_tiny<const N: usize>(t: &tinystr::TinyAsciiStr<N>)
    ensures #[trigger] display_bytes::<tinystr::TinyAsciiStr<N>>(t) == text(*t),
{ admit(); }

// ASSUMED semantics of format_args!/write! for plain `{}` placeholders (see the `write!` shim at the crate head)
#[verifier::external_body]
pub fn vf_write_dash<'a, T: std::fmt::Display>(f: &mut std::fmt::Formatter<'a>, a: &T) -> (r: std::fmt::Result)
    ensures r is Ok ==> fmt_out(*final(f)) == fmt_out(*old(f)) + dash() + display_bytes(a),
{ std::write!(f, "-{}", a) }
#[verifier::external_body]
pub fn vf_write2<'a, T: std::fmt::Display, U: std::fmt::Display>(f: &mut std::fmt::Formatter<'a>, a: &T, b: &U) -> (r: std::fmt::Result)
    ensures r is Ok ==> fmt_out(*final(f)) == fmt_out(*old(f)) + display_bytes(a) + display_bytes(b),
{ std::write!(f, "{}{}", a, b) }
#[verifier::external_body]
pub fn vf_write3<'a, T: std::fmt::Display, U: std::fmt::Display, W: std::fmt::Display>(f: &mut std::fmt::Formatter<'a>, a: &T, b: &U, c: &W) -> (r: std::fmt::Result)
    ensures r is Ok ==> fmt_out(*final(f)) == fmt_out(*old(f)) + display_bytes(a) + display_bytes(b) + display_bytes(c),
{ std::write!(f, "{}{}{}", a, b, c) }

// ---- R8: `RECV.iter().filter_map(CLOSURE).collect::<Result<Vec<_>, _>>()` is rewritten to this helper -------------
/// what `filter_map(g).collect::<Result<Vec<_>, _>>()` computes for a pure `g`: the `Some(Ok(_))` payloads in order,
/// or the first `Some(Err(_))` (later elements are not looked at)
pub open spec fn fmc_spec<S, T, E>(s: Seq<S>, g: spec_fn(S) -> Option<Result<T, E>>) -> Result<Seq<T>, E>
    decreases s.len()
{
    if s.len() == 0 { Ok(Seq::empty()) } else {
        match g(s[0]) {
            None => fmc_spec(s.skip(1), g),
            Some(Err(e)) => Err(e),
            Some(Ok(v)) => match fmc_spec(s.skip(1), g) { Ok(r) => Ok(seq![v] + r), Err(e) => Err(e) },
        }
    }
}
pub open spec fn res_vec_view<T, E>(r: Result<Vec<T>, E>) -> Result<Seq<T>, E> {
    match r { Ok(v) => Ok(v@), Err(e) => Err(e) }
}
/// ASSUMED std contract (slice::iter + Iterator::filter_map + FromIterator for Result<Vec<_>, _>), parametric in the
/// closure's verified ensures; the body is the very chain that the rewrite rule R8 replaces.
#[verifier::external_body]
pub fn vf_filter_map_collect<'a, S, T, E, F: FnMut(&'a S) -> Option<Result<T, E>>>(s: &'a [S], f: F) -> (r: Result<Vec<T>, E>)
    requires
        forall|x: &S| f.requires((x,)),
    ensures
        forall|g: spec_fn(S) -> Option<Result<T, E>>| (forall|x: &S, o: Option<Result<T, E>>| f.ensures((x,), o) ==> o == g(*x))
            ==> res_vec_view(r) == #[trigger] fmc_spec(s@, g),
{ s.iter().filter_map(f).collect::<Result<Vec<_>, _>>() }

/// ASSUMED std contract: Result<Option<T>, E>::transpose
pub assume_specification<T, E>[ Result::<Option<T>, E>::transpose ](r: Result<Option<T>, E>) -> (o: Option<Result<T, E>>)
    ensures o == (match r { Ok(Some(x)) => Some(Ok(x)), Ok(None) => None, Err(e) => Some(Err(e)) });

// ---- R9: `RECV.map(CLOSURE)` (provided method Iterator::map) is rewritten to this helper in the getters ---------------------
pub use vstd::std_specs::iter::IteratorSpec;
/// ASSUMED std contract: `it.map(f)` yields, for the remaining items x of `it` in order, values related to x by the closure's
/// (verified) ensures; the body is the very call that rule R9 replaces
#[verifier::external_body]
pub fn vf_iter_map<I: Iterator, B, F: FnMut(I::Item) -> B>(it: I, f: F) -> (r: std::iter::Map<I, F>)
    requires
        forall|x: I::Item| f.requires((x,)),
    ensures
        r.remaining().len() == it.remaining().len(),
        forall|i: int| 0 <= i < it.remaining().len() ==> f.ensures((it.remaining()[i],), #[trigger] r.remaining()[i]),
{ it.map(f) }
/// ASSUMED (tinystr; Kani langid_leaf leaf_deref_is_text): `<TinyAsciiStr<N> as AsRef<str>>::as_ref` is the text
pub proof fn axiom_tiny_as_ref_str<const N: usize>(t: &tinystr::TinyAsciiStr<N>)
    ensures str_bytes(as_ref_spec::<tinystr::TinyAsciiStr<N>, str>(t)) == text(*t),
{ admit(); }
/// ASSUMED (std): `<str as AsRef<str>>::as_ref` is the identity
pub proof fn axiom_as_ref_str_id()
    ensures forall|x: &str| #[trigger] as_ref_spec::<str, str>(x) == x,
{ admit(); }
/// the texts of a sequence of string slices
pub open spec fn strs(s: Seq<&str>) -> Seq<Seq<u8>> { Seq::new(s.len(), |i: int| str_bytes(s[i])) }
