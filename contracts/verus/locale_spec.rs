// =====================================================================================
// locale_spec.rs — spec vocabulary for the extension grammar (C03), written from the
// UTS #35 productions quoted in the property: recogniser-style spec functions over the
// subtag sequence `t : Seq<Seq<u8>>`.
// =====================================================================================
pub use unic_langid_impl::vspec::*;
pub use vstd::std_specs::iter::IteratorSpec;

pub assume_specification[ u8::is_ascii_alphabetic ](c: &u8) -> (r: bool) ensures r == alpha(*c);
pub assume_specification[ u8::is_ascii_digit ](c: &u8) -> (r: bool) ensures r == digit(*c);
pub assume_specification[ u8::is_ascii_alphanumeric ](c: &u8) -> (r: bool) ensures r == alnum(*c);

/// the TinyAsciiStr with a given text (exists for every text a leaf parser returns)
pub open spec fn tiny<const N: usize>(s: Seq<u8>) -> tinystr::TinyAsciiStr<N> {
    choose|t: tinystr::TinyAsciiStr<N>| text(t) == s
}
pub proof fn lemma_tiny_text<const N: usize>(t: tinystr::TinyAsciiStr<N>)
    ensures tiny::<N>(text(t)) == t,
{
    broadcast use axiom_text_injective;
    let u = tiny::<N>(text(t));
    assert(text(u) == text(t));
}

/// alias of `text` (for functions that have a local variable called `text`)
pub open spec fn txt<const N: usize>(t: tinystr::TinyAsciiStr<N>) -> Seq<u8> { text(t) }

pub open spec fn texts<const N: usize>(s: Seq<tinystr::TinyAsciiStr<N>>) -> Seq<Seq<u8>> {
    Seq::new(s.len(), |i: int| text(s[i]))
}

/// ASSUMED (Kani: locale_leaf tinystr_ord_is_lex / lawful): TinyStr's derived Ord is the byte-wise
/// lexicographic order of its text — a lawful total order, so vstd's BTreeMap specs apply.
pub proof fn axiom_tiny_ord<const N: usize>()
    ensures
        vstd::std_specs::btree::key_obeys_cmp_spec::<tinystr::TinyAsciiStr<N>>(),
        forall|a: tinystr::TinyAsciiStr<N>, b: tinystr::TinyAsciiStr<N>| #[trigger] ord_le(a, b) == lex_le(text(a), text(b)),
{ admit(); }

// ---------------------------------------------------------------------------------------
// -u- extension body.  The loop consumes every subtag that is 2 long or 3-8 alphanumeric.
// ---------------------------------------------------------------------------------------
pub open spec fn u_shaped(s: Seq<u8>) -> bool { s.len() == 2 || is_utype(s) }

pub open spec fn u_end(t: Seq<Seq<u8>>, a: int) -> int
    decreases t.len() - a
{
    if 0 <= a < t.len() && u_shaped(t[a]) { u_end(t, a + 1) } else { a }
}
pub open spec fn u_keys_ok(t: Seq<Seq<u8>>, a: int, e: int) -> bool {
    forall|i: int| a <= i < e && (#[trigger] t[i]).len() == 2 ==> is_ukey(t[i])
}
/// key test: -u- (mode true): any 2-byte subtag is a key position; -t- (mode false): alpha digit
pub open spec fn is_key(mode: bool, s: Seq<u8>) -> bool { if mode { s.len() == 2 } else { is_tkey(s) } }

/// index of the last key in [a, e), or -1
pub open spec fn last_key(t: Seq<Seq<u8>>, a: int, e: int, mode: bool) -> int
    decreases e - a
{
    if e <= a { -1 } else if is_key(mode, t[e - 1]) { e - 1 } else { last_key(t, a, e - 1, mode) }
}
/// keyword / tfield map after reading the subtags [a, e): key -> lower-cased values without `true`
/// (a repeated key restarts its value list: the later occurrence wins)
pub open spec fn kv_fold(t: Seq<Seq<u8>>, a: int, e: int, mode: bool) -> Map<tinystr::TinyAsciiStr<4>, Seq<Seq<u8>>>
    decreases e - a
{
    if e <= a {
        Map::empty()
    } else {
        let prev = kv_fold(t, a, e - 1, mode);
        let s = t[e - 1];
        if is_key(mode, s) {
            prev.insert(tiny::<4>(lower(s)), Seq::empty())
        } else {
            let p = last_key(t, a, e - 1, mode);
            if p < 0 || lower(s) == true_word() {
                prev
            } else {
                let k = tiny::<4>(lower(t[p]));
                prev.insert(k, prev[k].push(lower(s)))
            }
        }
    }
}
/// index of the first key in [a, e), or e when there is none (attributes = subtags before it)
pub open spec fn u_first_key(t: Seq<Seq<u8>>, a: int, e: int) -> int
    decreases e - a
{
    if e <= a { a } else {
        let p = u_first_key(t, a, e - 1);
        if p < e - 1 { p } else if t[e - 1].len() == 2 { e - 1 } else { e }
    }
}

pub struct UView {
    pub attrs: Seq<Seq<u8>>,
    pub kw: Map<tinystr::TinyAsciiStr<4>, Seq<Seq<u8>>>,
}
/// what C03 prescribes for the -u- body t[a..e)
pub open spec fn u_expected(t: Seq<Seq<u8>>, a: int, e: int, v: UView) -> bool {
    &&& strictly_sorted(v.attrs)
    &&& forall|x: Seq<u8>| v.attrs.contains(x) <==> (exists|i: int| a <= i < u_first_key(t, a, e) && x == lower(#[trigger] t[i]))
    &&& v.kw == kv_fold(t, a, e, true)
}
pub open spec fn u_wf(v: UView) -> bool {
    &&& strictly_sorted(v.attrs)
    &&& forall|i: int| 0 <= i < v.attrs.len() ==> is_utype(#[trigger] v.attrs[i]) && lower(v.attrs[i]) == v.attrs[i]
    &&& kv_wf(v.kw, true)
}

// ---------------------------------------------------------------------------------------
// -t- extension body:  [tlang] tfield*   (tlang = a language identifier, tfield = tkey tvalue*)
// ---------------------------------------------------------------------------------------

pub open spec fn t_has_lang(t: Seq<Seq<u8>>) -> bool { 0 < t.len() && lang_shaped(t[0]) }
/// first subtag after the tlang (or 0 when there is none)
pub open spec fn t_f0(t: Seq<Seq<u8>>) -> int {
    if t_has_lang(t) && is_language(t[0]) { lid_end(t) } else { 0 }
}
/// the field region ends at the first 1-byte subtag (the next singleton) or at the end of input
pub open spec fn tf_end(t: Seq<Seq<u8>>, a: int) -> int
    decreases t.len() - a
{
    if 0 <= a < t.len() && t[a].len() != 1 { tf_end(t, a + 1) } else { a }
}
pub open spec fn t_has_fields(t: Seq<Seq<u8>>) -> bool { 0 <= t_f0(t) < t.len() && is_tkey(t[t_f0(t)]) }
/// number of subtags the -t- body consumes
pub open spec fn t_end(t: Seq<Seq<u8>>) -> int {
    if t_has_fields(t) { tf_end(t, t_f0(t)) } else { t_f0(t) }
}
pub open spec fn t_fields_ok(t: Seq<Seq<u8>>) -> bool {
    forall|i: int| t_f0(t) <= i < t_end(t) ==> is_tkey(#[trigger] t[i]) || is_utype(t[i])
}
/// the -t- body must be rejected
pub open spec fn t_err(t: Seq<Seq<u8>>) -> bool {
    ||| (t_has_lang(t) && !is_language(t[0]))                                          // 4-letter "language"
    ||| (t_has_lang(t) && 0 <= t_f0(t) < t.len() && lang_shaped(t[t_f0(t)]))           // second tlang
    ||| (t_has_fields(t) && !t_fields_ok(t))                                           // malformed tvalue
}
pub struct TView {
    pub has_lang: bool,
    pub lang: LidView,
    pub fields: Map<tinystr::TinyAsciiStr<4>, Seq<Seq<u8>>>,
}
pub open spec fn t_expected(t: Seq<Seq<u8>>, v: TView) -> bool {
    &&& v.has_lang == t_has_lang(t)
    &&& v.has_lang ==> lid_expected(t, v.lang)
    &&& v.fields == kv_fold(t, t_f0(t), t_end(t), false)
}
pub open spec fn t_wf(v: TView) -> bool { kv_wf(v.fields, false) }

// ---------------------------------------------------------------------------------------
// -x- : everything to the end, each 1-8 alphanumerics
// ---------------------------------------------------------------------------------------
/// -x- value: the lower-cased tags in the library's documented sorted order (a sorted multiset)
pub open spec fn x_expected(t: Seq<Seq<u8>>, v: Seq<Seq<u8>>) -> bool {
    weakly_sorted(v) && v.to_multiset() == lowered_run(t, 0, t.len() as int).to_multiset()
}
pub open spec fn x_ok(t: Seq<Seq<u8>>, a: int) -> bool {
    forall|i: int| a <= i < t.len() ==> is_private(#[trigger] t[i])
}

// ---------------------------------------------------------------------------------------
// the extension sequence: singleton dispatch
// ---------------------------------------------------------------------------------------
pub enum Sing { U, T, X, Other, Empty, Multi }
pub open spec fn singleton(s: Seq<u8>) -> Sing {
    if s.len() == 0 { Sing::Empty }
    else if s.len() > 1 { Sing::Multi }
    else if lower_b(s[0]) == 0x75 { Sing::U }
    else if lower_b(s[0]) == 0x74 { Sing::T }
    else if lower_b(s[0]) == 0x78 { Sing::X }
    else { Sing::Other }
}

pub struct EView {
    pub u: Option<Seq<Seq<u8>>>,   // the subtags following the `u` singleton (the -u- body is a prefix of it)
    pub t: Option<Seq<Seq<u8>>>,   // ... following `t`
    pub x: Option<Seq<Seq<u8>>>,   // ... following `x` (all of it is the -x- body)
}
pub enum ERes { Err, Ok(EView) }

/// recogniser for the extension part; `ev` accumulates what was seen so far
pub open spec fn ext_parse(t: Seq<Seq<u8>>, ev: EView) -> ERes
    decreases t.len()
{
    if t.len() == 0 {
        ERes::Ok(ev)
    } else {
        let body = t.skip(1);
        match singleton(t[0]) {
            Sing::Empty => ext_parse(body, ev),
            Sing::Multi => ERes::Err,
            Sing::Other => ERes::Err,
            Sing::U => {
                let e = u_end(body, 0);
                if ev.u is Some || !u_keys_ok(body, 0, e) { ERes::Err }
                else if e < 0 || e > body.len() { ERes::Err }   // dead (lemma_u_end_bounds)
                else { ext_parse(body.skip(e), EView { u: Some(body), ..ev }) }
            },
            Sing::T => {
                let e = t_end(body);
                if ev.t is Some || t_err(body) { ERes::Err }
                else if e < 0 || e > body.len() { ERes::Err }   // dead (lemma_t_end_bounds)
                else { ext_parse(body.skip(e), EView { t: Some(body), ..ev }) }
            },
            Sing::X => {
                if x_ok(body, 0) { ERes::Ok(EView { x: Some(body), ..ev }) } else { ERes::Err }
            },
        }
    }
}
pub open spec fn ev0() -> EView { EView { u: None, t: None, x: None } }

// ---- helper lemmas -------------------------------------------------------------------------
pub proof fn lemma_u_end(t: Seq<Seq<u8>>, a: int, k: int)
    requires
        0 <= a <= k <= t.len(),
        forall|i: int| a <= i < k ==> u_shaped(#[trigger] t[i]),
        k == t.len() || !u_shaped(t[k]),
    ensures u_end(t, a) == k,
    decreases k - a,
{
    if a < k { lemma_u_end(t, a + 1, k); }
}
pub proof fn lemma_u_end_bounds(t: Seq<Seq<u8>>, a: int)
    requires 0 <= a <= t.len(),
    ensures a <= u_end(t, a) <= t.len(),
    decreases t.len() - a,
{
    if a < t.len() && u_shaped(t[a]) { lemma_u_end_bounds(t, a + 1); }
}
pub proof fn lemma_tf_end(t: Seq<Seq<u8>>, a: int, k: int)
    requires
        0 <= a <= k <= t.len(),
        forall|i: int| a <= i < k ==> (#[trigger] t[i]).len() != 1,
        k == t.len() || t[k].len() == 1,
    ensures tf_end(t, a) == k,
    decreases k - a,
{
    if a < k { lemma_tf_end(t, a + 1, k); }
}
pub proof fn lemma_tf_end_bounds(t: Seq<Seq<u8>>, a: int)
    requires 0 <= a <= t.len(),
    ensures a <= tf_end(t, a) <= t.len(),
    decreases t.len() - a,
{
    if a < t.len() && t[a].len() != 1 { lemma_tf_end_bounds(t, a + 1); }
}

pub open spec fn kv_wf(m: Map<tinystr::TinyAsciiStr<4>, Seq<Seq<u8>>>, mode: bool) -> bool {
    &&& forall|k: tinystr::TinyAsciiStr<4>| m.contains_key(k) ==> (if mode { is_ukey(text(k)) } else { is_tkey(text(k)) }) && lower(text(k)) == text(k)
    &&& forall|k: tinystr::TinyAsciiStr<4>, i: int| m.contains_key(k) && 0 <= i < m[k].len() ==> {
            let x = #[trigger] m[k][i];
            is_utype(x) && lower(x) == x && x != true_word() }
}
pub open spec fn vals_wf(s: Seq<Seq<u8>>) -> bool {
    forall|i: int| 0 <= i < s.len() ==> is_utype(#[trigger] s[i]) && lower(s[i]) == s[i] && s[i] != true_word()
}

/// sort_unstable + dedup on a vector of TinyStr yields the strictly sorted sequence with the same set
pub proof fn lemma_sorted_dedup_tiny<const N: usize>(a: Seq<tinystr::TinyAsciiStr<N>>, m: Seq<tinystr::TinyAsciiStr<N>>, b: Seq<tinystr::TinyAsciiStr<N>>)
    requires
        sorted_by_ord(m),
        m.to_multiset() == a.to_multiset(),
        dedup_of(m, b),
    ensures
        strictly_sorted(texts(b)),
        forall|y: tinystr::TinyAsciiStr<N>| a.contains(y) <==> b.contains(y),
        forall|x: Seq<u8>| texts(a).contains(x) <==> texts(b).contains(x),
{
    axiom_tiny_ord::<N>();
    broadcast use axiom_text_injective;
    a.to_multiset_ensures();
    m.to_multiset_ensures();
    assert forall|y: tinystr::TinyAsciiStr<N>| a.contains(y) <==> b.contains(y) by {
        assert(a.contains(y) <==> a.to_multiset().count(y) > 0);
        assert(m.contains(y) <==> m.to_multiset().count(y) > 0);
    }
    assert forall|x: Seq<u8>| texts(a).contains(x) <==> texts(b).contains(x) by {
        if texts(a).contains(x) {
            let i = choose|i: int| 0 <= i < texts(a).len() && texts(a)[i] == x;
            assert(a.contains(a[i]));
            let j = choose|j: int| 0 <= j < b.len() && b[j] == a[i];
            assert(texts(b)[j] == x);
        }
        if texts(b).contains(x) {
            let i = choose|i: int| 0 <= i < texts(b).len() && texts(b)[i] == x;
            assert(b.contains(b[i]));
            let j = choose|j: int| 0 <= j < a.len() && a[j] == b[i];
            assert(texts(a)[j] == x);
        }
    }
    assert forall|i: int| 0 <= i < b.len() - 1 implies lex_lt(#[trigger] texts(b)[i], texts(b)[i + 1]) by {
        assert(ord_le(b[i], b[i + 1]));
        if text(b[i]) == text(b[i + 1]) { assert(b[i] == b[i + 1]); }
    }
    lemma_adjacent_strict_is_strict(texts(b));
}

/// sort_unstable on a vector of TinyStr: weakly sorted, same multiset of texts
pub proof fn lemma_sorted_tiny<const N: usize>(m: Seq<tinystr::TinyAsciiStr<N>>)
    requires sorted_by_ord(m),
    ensures weakly_sorted(texts(m)),
{
    axiom_tiny_ord::<N>();
}

pub proof fn lemma_lower_props(s: Seq<u8>)
    ensures
        lower(s).len() == s.len(),
        lower(lower(s)) == lower(s),
        all_alpha(s) ==> all_alpha(lower(s)),
        all_alnum(s) ==> all_alnum(lower(s)),
        is_utype(s) ==> is_utype(lower(s)),
        is_ukey(s) ==> is_ukey(lower(s)),
        is_tkey(s) ==> is_tkey(lower(s)),
        is_private(s) ==> is_private(lower(s)),
{
    assert(lower(lower(s)) =~= lower(s));
    assert forall|i: int| 0 <= i < s.len() implies (alpha(s[i]) ==> alpha(lower(s)[i])) && (alnum(s[i]) ==> alnum(lower(s)[i])) by {}
    if is_ukey(s) { assert(alnum(lower(s)[0]) && alpha(lower(s)[1])); }
    if is_tkey(s) { assert(alpha(lower(s)[0]) && digit(lower(s)[1])); }
}

pub proof fn lemma_u_end_gt(t: Seq<Seq<u8>>, a: int, k: int)
    requires
        0 <= a <= k < t.len(),
        forall|i: int| a <= i <= k ==> u_shaped(#[trigger] t[i]),
    ensures u_end(t, a) > k,
    decreases k - a,
{
    if a < k { lemma_u_end_gt(t, a + 1, k); } else { lemma_u_end_bounds(t, a + 1); }
}

pub proof fn lemma_tf_end_gt(t: Seq<Seq<u8>>, a: int, k: int)
    requires
        0 <= a <= k < t.len(),
        forall|i: int| a <= i <= k ==> (#[trigger] t[i]).len() != 1,
    ensures tf_end(t, a) > k,
    decreases k - a,
{
    if a < k { lemma_tf_end_gt(t, a + 1, k); } else { lemma_tf_end_bounds(t, a + 1); }
}
pub proof fn lemma_kv_wf_insert(m: Map<tinystr::TinyAsciiStr<4>, Seq<Seq<u8>>>, k: tinystr::TinyAsciiStr<4>, v: Seq<Seq<u8>>, mode: bool)
    requires
        kv_wf(m, mode),
        vals_wf(v),
        (if mode { is_ukey(text(k)) } else { is_tkey(text(k)) }) && lower(text(k)) == text(k),
    ensures kv_wf(m.insert(k, v), mode),
{
    let nm = m.insert(k, v);
    assert forall|kk: tinystr::TinyAsciiStr<4>, i: int| nm.contains_key(kk) && 0 <= i < nm[kk].len() implies
        is_utype(#[trigger] nm[kk][i]) && lower(nm[kk][i]) == nm[kk][i] && nm[kk][i] != true_word() by {
        if kk == k { assert(nm[kk][i] == v[i]); } else { assert(m.contains_key(kk) && nm[kk] == m[kk]); }
    }
}

pub proof fn lemma_t_end_bounds(t: Seq<Seq<u8>>)
    ensures 0 <= t_end(t) <= t.len() || t_err(t),
{
    if t_has_lang(t) && is_language(t[0]) {
        lemma_var_run_bounds(t, var_pos(t));
    }
    if t_has_fields(t) { lemma_tf_end_bounds(t, t_f0(t)); }
}

pub proof fn lemma_tiny_text_all<const N: usize>()
    ensures forall|t: tinystr::TinyAsciiStr<N>| tiny::<N>(#[trigger] text(t)) == t,
{
    assert forall|t: tinystr::TinyAsciiStr<N>| tiny::<N>(#[trigger] text(t)) == t by { lemma_tiny_text::<N>(t); }
}
pub proof fn lemma_kv_wf_remove_all(mode: bool)
    ensures forall|m: Map<tinystr::TinyAsciiStr<4>, Seq<Seq<u8>>>, k: tinystr::TinyAsciiStr<4>|
        kv_wf(m, mode) ==> kv_wf(#[trigger] m.remove(k), mode),
{
    assert forall|m: Map<tinystr::TinyAsciiStr<4>, Seq<Seq<u8>>>, k: tinystr::TinyAsciiStr<4>|
        kv_wf(m, mode) implies kv_wf(#[trigger] m.remove(k), mode) by {
        let nm = m.remove(k);
        assert forall|kk: tinystr::TinyAsciiStr<4>, i: int| nm.contains_key(kk) && 0 <= i < nm[kk].len() implies
            is_utype(#[trigger] nm[kk][i]) && lower(nm[kk][i]) == nm[kk][i] && nm[kk][i] != true_word() by {
            assert(m.contains_key(kk) && nm[kk] == m[kk]);
        }
    }
}

/// membership in a vector of TinyStr == membership of the text among the texts
pub proof fn lemma_texts_contains_all<const N: usize>()
    ensures forall|s: Seq<tinystr::TinyAsciiStr<N>>, x: tinystr::TinyAsciiStr<N>| #[trigger] s.contains(x) <==> texts::<N>(s).contains(text(x)),
{
    broadcast use axiom_text_injective;
    assert forall|s: Seq<tinystr::TinyAsciiStr<N>>, x: tinystr::TinyAsciiStr<N>| #[trigger] s.contains(x) <==> texts::<N>(s).contains(text(x)) by {
        if s.contains(x) {
            let i = choose|i: int| 0 <= i < s.len() && s[i] == x;
            assert(texts::<N>(s)[i] == text(x));
        }
        if texts::<N>(s).contains(text(x)) {
            let i = choose|i: int| 0 <= i < texts::<N>(s).len() && texts::<N>(s)[i] == text(x);
            assert(text(s[i]) == text(x));
            assert(s[i] == x);
        }
    }
}
pub proof fn lemma_strict_sorted_by_ord<const N: usize>(s: Seq<tinystr::TinyAsciiStr<N>>)
    requires strictly_sorted(texts::<N>(s)),
    ensures sorted_by_ord(s),
{
    axiom_tiny_ord::<N>();
    assert forall|i: int, j: int| 0 <= i <= j < s.len() implies ord_le(#[trigger] s[i], #[trigger] s[j]) by {
        if i == j { lemma_lex_le_refl(text(s[i])); }
        else { assert(lex_lt(texts::<N>(s)[i], texts::<N>(s)[j])); }
    }
}
pub proof fn lemma_weak_sorted_by_ord<const N: usize>(s: Seq<tinystr::TinyAsciiStr<N>>)
    requires weakly_sorted(texts::<N>(s)),
    ensures sorted_by_ord(s),
{
    axiom_tiny_ord::<N>();
    assert forall|i: int, j: int| 0 <= i <= j < s.len() implies ord_le(#[trigger] s[i], #[trigger] s[j]) by {
        assert(lex_le(texts::<N>(s)[i], texts::<N>(s)[j]));
    }
}

/// permutation of the vector => permutation of the texts
pub proof fn lemma_texts_multiset<const N: usize>(a: Seq<tinystr::TinyAsciiStr<N>>, b: Seq<tinystr::TinyAsciiStr<N>>)
    requires a.to_multiset() == b.to_multiset(),
    ensures texts::<N>(a).to_multiset() == texts::<N>(b).to_multiset(),
{
    // texts(s) == s.map_values(text); to_multiset of a map_values image depends only on the multiset
    assert(texts::<N>(a) =~= a.map_values(|t: tinystr::TinyAsciiStr<N>| text(t)));
    assert(texts::<N>(b) =~= b.map_values(|t: tinystr::TinyAsciiStr<N>| text(t)));
    lemma_map_values_multiset(a, b, |t: tinystr::TinyAsciiStr<N>| text(t));
}
pub proof fn lemma_map_values_multiset<A, B>(a: Seq<A>, b: Seq<A>, f: spec_fn(A) -> B)
    requires a.to_multiset() == b.to_multiset(),
    ensures a.map_values(f).to_multiset() == b.map_values(f).to_multiset(),
    decreases a.len(),
{
    a.to_multiset_ensures();
    b.to_multiset_ensures();
    if a.len() == 0 {
        assert(b.len() == 0);
        assert(a.map_values(f) =~= b.map_values(f));
    } else {
        let x = a[a.len() - 1];
        assert(a.contains(x));
        assert(b.to_multiset().count(x) > 0);
        assert(b.contains(x));
        let j = choose|j: int| 0 <= j < b.len() && b[j] == x;
        let a2 = a.drop_last();
        let b2 = b.remove(j);
        assert(a =~= a2.push(x));
        b.remove_ensures(j);
        assert(a2.to_multiset() =~= a.to_multiset().remove(x)) by {
            a2.to_multiset_ensures();
            assert(a2.push(x).to_multiset() == a2.to_multiset().insert(x));
        }
        assert(b2.to_multiset() == b.to_multiset().remove(x));
        lemma_map_values_multiset(a2, b2, f);
        // rebuild
        assert(a.map_values(f) =~= a2.map_values(f).push(f(x)));
        a2.map_values(f).to_multiset_ensures();
        assert(a.map_values(f).to_multiset() == a2.map_values(f).to_multiset().insert(f(x)));
        assert(b.map_values(f) =~= b2.map_values(f).insert(j, f(x)));
        lemma_insert_multiset(b2.map_values(f), j, f(x));
    }
}
pub proof fn lemma_insert_multiset<B>(s: Seq<B>, j: int, x: B)
    requires 0 <= j <= s.len(),
    ensures s.insert(j, x).to_multiset() == s.to_multiset().insert(x),
{
    let t = s.insert(j, x);
    assert(t.remove(j) =~= s);
    t.remove_ensures(j);
    t.to_multiset_ensures();
    s.to_multiset_ensures();
    assert(t.to_multiset() =~= s.to_multiset().insert(x)) by {
        assert(t.remove(j).to_multiset() == t.to_multiset().remove(x));
        assert(t.contains(x)) by { assert(t[j] == x); }
        assert(t.to_multiset().count(x) > 0);
    }
}

// ---------------------------------------------------------------------------------------
// C04: serialisation specs of the extension types
// ---------------------------------------------------------------------------------------
pub open spec fn lit_x() -> Seq<u8> { seq![0x2du8, 0x78u8] }
pub open spec fn lit_u() -> Seq<u8> { seq![0x2du8, 0x75u8] }
pub open spec fn lit_t() -> Seq<u8> { seq![0x2du8, 0x74u8] }
pub open spec fn x_ser(v: Seq<Seq<u8>>) -> Seq<u8> { if v.len() == 0 { Seq::empty() } else { lit_x() + dash_join(v) } }

/// "-k1-v-v-k2-v..." for the listed keys, in the listed order
pub open spec fn kv_ser(keys: Seq<tinystr::TinyAsciiStr<4>>, m: Map<tinystr::TinyAsciiStr<4>, Seq<Seq<u8>>>) -> Seq<u8>
    decreases keys.len()
{
    if keys.len() == 0 { Seq::empty() }
    else { kv_ser(keys.drop_last(), m) + dash() + text(keys.last()) + dash_join(m[keys.last()]) }
}
/// the keys of a map in strictly increasing (byte-wise lexicographic) order
pub open spec fn is_sorted_keys(keys: Seq<tinystr::TinyAsciiStr<4>>, m: Map<tinystr::TinyAsciiStr<4>, Seq<Seq<u8>>>) -> bool {
    &&& strictly_sorted(texts::<4>(keys))
    &&& forall|k: tinystr::TinyAsciiStr<4>| keys.contains(k) <==> m.contains_key(k)
}
pub open spec fn sorted_keys(m: Map<tinystr::TinyAsciiStr<4>, Seq<Seq<u8>>>) -> Seq<tinystr::TinyAsciiStr<4>> {
    choose|keys: Seq<tinystr::TinyAsciiStr<4>>| is_sorted_keys(keys, m)
}
pub open spec fn u_ser(v: UView) -> Seq<u8> {
    if v.attrs.len() == 0 && v.kw == Map::<tinystr::TinyAsciiStr<4>, Seq<Seq<u8>>>::empty() { Seq::empty() }
    else { lit_u() + dash_join(v.attrs) + kv_ser(sorted_keys(v.kw), v.kw) }
}
pub open spec fn t_ser(v: TView) -> Seq<u8> {
    if !v.has_lang && v.fields == Map::<tinystr::TinyAsciiStr<4>, Seq<Seq<u8>>>::empty() { Seq::empty() }
    else { lit_t() + (if v.has_lang { dash() + lid_ser(v.lang) } else { Seq::empty() }) + kv_ser(sorted_keys(v.fields), v.fields) }
}

pub open spec fn sorted_pairs<'a, V>(s: Seq<(&'a tinystr::TinyAsciiStr<4>, &'a V)>) -> bool {
    forall|i: int, j: int| 0 <= i < j < s.len() ==> ord_lt(*(#[trigger] s[i]).0, *(#[trigger] s[j]).0)
}
/// ASSUMED std contract: BTreeMap iteration yields the keys in strictly increasing `Ord` order
pub broadcast proof fn axiom_btree_iter_sorted<'a, V>(it: std::collections::btree_map::Iter<'a, tinystr::TinyAsciiStr<4>, V>)
    ensures sorted_pairs(#[trigger] it.remaining()),
{ admit(); }

/// a strictly sorted sequence is determined by its set of elements
pub proof fn lemma_strict_sorted_unique(a: Seq<Seq<u8>>, b: Seq<Seq<u8>>)
    requires
        strictly_sorted(a), strictly_sorted(b),
        forall|x: Seq<u8>| a.contains(x) <==> b.contains(x),
    ensures a == b,
    decreases a.len(),
{
    if a.len() == 0 {
        if b.len() > 0 { assert(b.contains(b[0])); }
        assert(a =~= b);
    } else if b.len() == 0 {
        assert(a.contains(a[0]));
    } else {
        let la = a.last();
        let lb = b.last();
        assert(a.contains(la));
        assert(b.contains(la));
        assert(b.contains(lb));
        assert(a.contains(lb));
        let i = choose|i: int| 0 <= i < b.len() && b[i] == la;
        let j = choose|j: int| 0 <= j < a.len() && a[j] == lb;
        // la <= lb (la occurs in b, whose maximum is lb) and lb <= la
        if i < b.len() - 1 { assert(lex_lt(b[i], b[b.len() - 1])); }
        if j < a.len() - 1 { assert(lex_lt(a[j], a[a.len() - 1])); }
        if la != lb {
            lemma_lex_le_antisym(la, lb);
        }
        assert(la == lb);
        let a2 = a.drop_last();
        let b2 = b.drop_last();
        assert forall|x: Seq<u8>| a2.contains(x) <==> b2.contains(x) by {
            if a2.contains(x) {
                let k = choose|k: int| 0 <= k < a2.len() && a2[k] == x;
                assert(a[k] == x);
                assert(lex_lt(a[k], a[a.len() - 1]));
                assert(a.contains(x));
                let m = choose|m: int| 0 <= m < b.len() && b[m] == x;
                assert(m < b.len() - 1);
                assert(b2[m] == x);
            }
            if b2.contains(x) {
                let k = choose|k: int| 0 <= k < b2.len() && b2[k] == x;
                assert(b[k] == x);
                assert(lex_lt(b[k], b[b.len() - 1]));
                assert(b.contains(x));
                let m = choose|m: int| 0 <= m < a.len() && a[m] == x;
                assert(m < a.len() - 1);
                assert(a2[m] == x);
            }
        }
        assert(strictly_sorted(a2)) by {
            assert forall|p: int, q: int| 0 <= p < q < a2.len() implies lex_lt(#[trigger] a2[p], #[trigger] a2[q]) by { assert(lex_lt(a[p], a[q])); }
        }
        assert(strictly_sorted(b2)) by {
            assert forall|p: int, q: int| 0 <= p < q < b2.len() implies lex_lt(#[trigger] b2[p], #[trigger] b2[q]) by { assert(lex_lt(b[p], b[q])); }
        }
        lemma_strict_sorted_unique(a2, b2);
        assert(a =~= a2.push(la));
        assert(b =~= b2.push(lb));
    }
}

/// any strictly sorted key sequence covering the map's domain IS sorted_keys(m)
pub proof fn lemma_sorted_keys_unique(keys: Seq<tinystr::TinyAsciiStr<4>>, m: Map<tinystr::TinyAsciiStr<4>, Seq<Seq<u8>>>)
    requires is_sorted_keys(keys, m),
    ensures keys == sorted_keys(m),
{
    broadcast use axiom_text_injective;
    let sk = sorted_keys(m);
    assert(is_sorted_keys(sk, m));
    lemma_texts_contains_all::<4>();
    assert forall|x: Seq<u8>| texts::<4>(keys).contains(x) <==> texts::<4>(sk).contains(x) by {
        if texts::<4>(keys).contains(x) {
            let i = choose|i: int| 0 <= i < keys.len() && texts::<4>(keys)[i] == x;
            assert(keys.contains(keys[i]));
            assert(sk.contains(keys[i]));
        }
        if texts::<4>(sk).contains(x) {
            let i = choose|i: int| 0 <= i < sk.len() && texts::<4>(sk)[i] == x;
            assert(sk.contains(sk[i]));
            assert(keys.contains(sk[i]));
        }
    }
    lemma_strict_sorted_unique(texts::<4>(keys), texts::<4>(sk));
    assert(keys.len() == sk.len()) by { assert(texts::<4>(keys).len() == texts::<4>(sk).len()); }
    assert forall|i: int| 0 <= i < keys.len() implies keys[i] == sk[i] by {
        assert(texts::<4>(keys)[i] == texts::<4>(sk)[i]);
    }
    assert(keys =~= sk);
}

pub proof fn lemma_kv_ser_push(keys: Seq<tinystr::TinyAsciiStr<4>>, k: tinystr::TinyAsciiStr<4>, m: Map<tinystr::TinyAsciiStr<4>, Seq<Seq<u8>>>)
    ensures kv_ser(keys.push(k), m) == kv_ser(keys, m) + dash() + text(k) + dash_join(m[k]),
{
    assert(keys.push(k).drop_last() =~= keys);
}

// ---------------------------------------------------------------------------------------
// set_keyword / set_tfield: the value list an accepted call stores (C10: normalised exactly as the parser would)
// ---------------------------------------------------------------------------------------
pub open spec fn slice_bytes<S>(s: Seq<S>) -> Seq<Seq<u8>> { Seq::new(s.len(), |i: int| bytes_of(s[i])) }
pub open spec fn all_utype(v: Seq<Seq<u8>>) -> bool { forall|i: int| 0 <= i < v.len() ==> is_utype(#[trigger] v[i]) }
/// lower-cased values in the given order, `true` dropped
pub open spec fn vals_norm(v: Seq<Seq<u8>>) -> Seq<Seq<u8>>
    decreases v.len()
{
    if v.len() == 0 { Seq::empty() }
    else if lower(v[0]) == true_word() { vals_norm(v.skip(1)) }
    else { seq![lower(v[0])] + vals_norm(v.skip(1)) }
}
/// what the closure `|t| parse_type(t.as_ref()).transpose()` (and the tvalue twin) returns, as a function of the bytes
pub open spec fn utype_opt(b: Seq<u8>) -> Option<Result<tinystr::TinyAsciiStr<8>, crate::parser::ParserError>> {
    if !is_utype(b) { Some(Err(crate::parser::ParserError::InvalidSubtag)) }
    else if lower(b) == true_word() { None }
    else { Some(Ok(tiny::<8>(lower(b)))) }
}
pub open spec fn utype_opt_of<S>() -> spec_fn(S) -> Option<Result<tinystr::TinyAsciiStr<8>, crate::parser::ParserError>> {
    |x: S| utype_opt(bytes_of(x))
}
/// ASSUMED (Kani: every leaf parser returns a TinyAsciiStr whose text is the lower-cased input, so such a value exists)
pub proof fn axiom_tiny_exists(b: Seq<u8>)
    requires is_utype(b),
    ensures text(tiny::<8>(lower(b))) == lower(b),
{ admit(); }
pub proof fn lemma_fmc_utype<S>(s: Seq<S>)
    ensures
        match fmc_spec(s, utype_opt_of::<S>()) {
            Ok(v) => all_utype(slice_bytes(s)) && texts::<8>(v) == vals_norm(slice_bytes(s)) && vals_wf(texts::<8>(v)),
            Err(e) => !all_utype(slice_bytes(s)) && e == crate::parser::ParserError::InvalidSubtag,
        },
    decreases s.len(),
{
    let g = utype_opt_of::<S>();
    let b = slice_bytes(s);
    if s.len() == 0 {
        assert(texts::<8>(Seq::<tinystr::TinyAsciiStr<8>>::empty()) =~= vals_norm(b));
    } else {
        lemma_fmc_utype::<S>(s.skip(1));
        assert(slice_bytes(s.skip(1)) =~= b.skip(1));
        assert(b[0] == bytes_of(s[0]));
        assert(g(s[0]) == utype_opt(b[0]));
        if !is_utype(b[0]) {
        } else {
            lemma_lower_props(b[0]);
            match fmc_spec(s.skip(1), g) {
                Ok(r) => {
                    assert forall|i: int| 0 <= i < b.len() implies is_utype(#[trigger] b[i]) by {
                        if i > 0 { assert(b.skip(1)[i - 1] == b[i]); }
                    }
                    if lower(b[0]) != true_word() {
                        axiom_tiny_exists(b[0]);
                        let v = seq![tiny::<8>(lower(b[0]))] + r;
                        assert(texts::<8>(v) =~= seq![lower(b[0])] + texts::<8>(r));
                    }
                }
                Err(e) => {
                    let i = choose|i: int| 0 <= i < b.skip(1).len() && !is_utype(#[trigger] b.skip(1)[i]);
                    assert(b[i + 1] == b.skip(1)[i]);
                }
            }
        }
    }
}
