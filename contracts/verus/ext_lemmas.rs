// ---- L-RT for the extension part (C05 / C09 / C17 at the Locale level): lemmas over the spec vocabulary only ----------------
// e_ser(m) of a well-formed ExtensionsMap splits into the subtags e_toks(m); the recogniser ext_parse accepts them and prescribes
// exactly m's views again.

pub type KvMap = Map<tinystr::TinyAsciiStr<4>, Seq<Seq<u8>>>;

/// the subtags "k1 v v k2 v ..." for the listed keys, in the listed order
pub open spec fn kv_toks(keys: Seq<tinystr::TinyAsciiStr<4>>, m: KvMap) -> Seq<Seq<u8>>
    decreases keys.len()
{
    if keys.len() == 0 { Seq::empty() } else { kv_toks(keys.drop_last(), m) + seq![text(keys.last())] + m[keys.last()] }
}
pub proof fn lemma_dash_join_one(x: Seq<u8>)
    ensures dash_join(seq![x]) == dash() + x,
{
    assert(seq![x].drop_last() =~= Seq::<Seq<u8>>::empty());
    assert(dash_join(seq![x].drop_last()) =~= Seq::<u8>::empty());
    assert(dash_join(seq![x]) =~= dash() + x);
}
pub proof fn lemma_kv_ser_join(keys: Seq<tinystr::TinyAsciiStr<4>>, m: KvMap)
    ensures kv_ser(keys, m) == dash_join(kv_toks(keys, m)),
    decreases keys.len(),
{
    if keys.len() == 0 {
        assert(dash_join(Seq::<Seq<u8>>::empty()) =~= Seq::<u8>::empty());
    } else {
        let k = keys.last();
        lemma_kv_ser_join(keys.drop_last(), m);
        lemma_dash_join_one(text(k));
        lemma_dash_join_concat(kv_toks(keys.drop_last(), m), seq![text(k)]);
        lemma_dash_join_concat(kv_toks(keys.drop_last(), m) + seq![text(k)], m[k]);
        assert(kv_ser(keys, m) =~= dash_join(kv_toks(keys, m)));
    }
}

/// what a key / value list of a well-formed keyword or tfield map looks like
pub open spec fn kv_keys_ok(keys: Seq<tinystr::TinyAsciiStr<4>>, m: KvMap, mode: bool) -> bool {
    &&& strictly_sorted(texts::<4>(keys))
    &&& forall|i: int| 0 <= i < keys.len() ==> m.contains_key(#[trigger] keys[i])
            && (if mode { is_ukey(text(keys[i])) } else { is_tkey(text(keys[i])) }) && lower(text(keys[i])) == text(keys[i])
            && vals_wf(m[keys[i]])
}
pub proof fn lemma_kv_toks_len(keys: Seq<tinystr::TinyAsciiStr<4>>, m: KvMap)
    ensures kv_toks(keys, m).len() >= keys.len(),
    decreases keys.len(),
{
    if keys.len() > 0 { lemma_kv_toks_len(keys.drop_last(), m); }
}
/// every token of the key/value region is a key or a value; keys have length 2, values 3..8 (so: no singleton, all u-shaped)
pub proof fn lemma_kv_toks_shape(keys: Seq<tinystr::TinyAsciiStr<4>>, m: KvMap, mode: bool, i: int)
    requires kv_keys_ok(keys, m, mode), 0 <= i < kv_toks(keys, m).len(),
    ensures
        ({ let x = kv_toks(keys, m)[i];
           (is_key(mode, x) && (if mode { is_ukey(x) } else { is_tkey(x) }) && x.len() == 2) || (is_utype(x) && !is_key(mode, x) && lower(x) == x && x != true_word()) }),
        keys.len() > 0 && i == 0 ==> is_key(mode, kv_toks(keys, m)[0]),
    decreases keys.len(),
{
    if keys.len() > 0 {
        let k = keys.last();
        let pre = kv_toks(keys.drop_last(), m);
        assert(kv_keys_ok(keys.drop_last(), m, mode)) by {
            assert(texts::<4>(keys.drop_last()) =~= texts::<4>(keys).drop_last());
            assert forall|j: int| 0 <= j < keys.drop_last().len() implies m.contains_key(#[trigger] keys.drop_last()[j])
                && (if mode { is_ukey(text(keys.drop_last()[j])) } else { is_tkey(text(keys.drop_last()[j])) }) && lower(text(keys.drop_last()[j])) == text(keys.drop_last()[j])
                && vals_wf(m[keys.drop_last()[j]]) by { assert(keys.drop_last()[j] == keys[j]); }
        }
        assert(keys[keys.len() - 1] == k);
        if i < pre.len() {
            lemma_kv_toks_shape(keys.drop_last(), m, mode, i);
            assert(kv_toks(keys, m)[i] == pre[i]);
            if i == 0 { lemma_kv_toks_len(keys.drop_last(), m); assert(keys.drop_last().len() > 0 || pre.len() == 0); }
        } else if i == pre.len() {
            assert(kv_toks(keys, m)[i] == text(k));
            if i == 0 { }
        } else {
            let j = i - pre.len() - 1;
            assert(kv_toks(keys, m)[i] == m[k][j]);
            assert(is_utype(m[k][j]));
        }
        if i == 0 && pre.len() > 0 { lemma_kv_toks_shape(keys.drop_last(), m, mode, 0); lemma_kv_toks_len(keys.drop_last(), m);
            if keys.drop_last().len() == 0 { assert(pre.len() == 0); } }
    }
}

/// the map with exactly the listed keys
pub open spec fn kv_restrict(keys: Seq<tinystr::TinyAsciiStr<4>>, m: KvMap) -> KvMap {
    m.restrict(keys.to_set())
}

pub proof fn lemma_last_key_at(t: Seq<Seq<u8>>, a: int, p: int, e: int, mode: bool)
    requires a <= p < e <= t.len(), 0 <= a, is_key(mode, t[p]), forall|i: int| p < i < e ==> !is_key(mode, #[trigger] t[i]),
    ensures last_key(t, a, e, mode) == p,
    decreases e - p,
{
    if e - 1 > p { lemma_last_key_at(t, a, p, e - 1, mode); }
}
pub proof fn lemma_kv_fold_no_keys(t: Seq<Seq<u8>>, a: int, e: int, mode: bool)
    requires 0 <= a <= e <= t.len(), forall|i: int| a <= i < e ==> !is_key(mode, #[trigger] t[i]),
    ensures kv_fold(t, a, e, mode) == Map::<tinystr::TinyAsciiStr<4>, Seq<Seq<u8>>>::empty(), last_key(t, a, e, mode) == -1,
    decreases e - a,
{
    if e > a { lemma_kv_fold_no_keys(t, a, e - 1, mode); }
}

/// reading the values of one key: after the key at position p and j of its values, the fold maps the key to those j values
pub proof fn lemma_kv_fold_values(t: Seq<Seq<u8>>, a: int, p: int, j: int, mode: bool, k: tinystr::TinyAsciiStr<4>, vals: Seq<Seq<u8>>)
    requires
        0 <= a <= p, p + 1 + vals.len() <= t.len(), 0 <= j <= vals.len(),
        is_key(mode, t[p]), t[p] == text(k), lower(text(k)) == text(k),
        forall|i: int| 0 <= i < vals.len() ==> #[trigger] t[p + 1 + i] == vals[i],
        vals_wf(vals),
    ensures
        kv_fold(t, a, p + 1 + j, mode) == kv_fold(t, a, p, mode).insert(k, vals.take(j)),
    decreases j,
{
    lemma_tiny_text::<4>(k);
    if j == 0 {
        assert(vals.take(0) =~= Seq::<Seq<u8>>::empty());
    } else {
        lemma_kv_fold_values(t, a, p, j - 1, mode, k, vals);
        let e = p + 1 + j;
        let s = t[e - 1];
        assert(s == vals[j - 1]);
        assert(is_utype(s) && lower(s) == s && s != true_word());
        assert(!is_key(mode, s));
        assert forall|i: int| p < i < e - 1 implies !is_key(mode, #[trigger] t[i]) by {
            assert(t[p + 1 + (i - p - 1)] == vals[i - p - 1]);
            assert(is_utype(vals[i - p - 1]));
        }
        lemma_last_key_at(t, a, p, e - 1, mode);
        let prev = kv_fold(t, a, e - 1, mode);
        assert(prev == kv_fold(t, a, p, mode).insert(k, vals.take(j - 1)));
        assert(prev[k] == vals.take(j - 1));
        assert(vals.take(j - 1).push(s) =~= vals.take(j));
        assert(prev.insert(k, prev[k].push(lower(s))) =~= kv_fold(t, a, p, mode).insert(k, vals.take(j)));
    }
}

/// the fold over "attribute tokens (no keys) + kv_toks(keys, m)" is m restricted to the keys
pub proof fn lemma_kv_fold_region(t: Seq<Seq<u8>>, a0: int, a: int, keys: Seq<tinystr::TinyAsciiStr<4>>, m: KvMap, mode: bool)
    requires
        0 <= a0 <= a, a + kv_toks(keys, m).len() <= t.len(),
        forall|i: int| a0 <= i < a ==> !is_key(mode, #[trigger] t[i]),
        forall|i: int| 0 <= i < kv_toks(keys, m).len() ==> #[trigger] t[a + i] == kv_toks(keys, m)[i],
        kv_keys_ok(keys, m, mode),
    ensures
        kv_fold(t, a0, a + kv_toks(keys, m).len(), mode) == kv_restrict(keys, m),
    decreases keys.len(),
{
    if keys.len() == 0 {
        lemma_kv_fold_no_keys(t, a0, a, mode);
        assert(kv_restrict(keys, m) =~= Map::<tinystr::TinyAsciiStr<4>, Seq<Seq<u8>>>::empty());
    } else {
        let k = keys.last();
        let keys1 = keys.drop_last();
        let pre = kv_toks(keys1, m);
        let p = a + pre.len();
        assert(kv_keys_ok(keys1, m, mode)) by {
            assert(texts::<4>(keys1) =~= texts::<4>(keys).drop_last());
            assert forall|j: int| 0 <= j < keys1.len() implies m.contains_key(#[trigger] keys1[j])
                && (if mode { is_ukey(text(keys1[j])) } else { is_tkey(text(keys1[j])) }) && lower(text(keys1[j])) == text(keys1[j])
                && vals_wf(m[keys1[j]]) by { assert(keys1[j] == keys[j]); }
        }
        assert(keys[keys.len() - 1] == k);
        assert forall|i: int| 0 <= i < pre.len() implies #[trigger] t[a + i] == pre[i] by { assert(kv_toks(keys, m)[i] == pre[i]); }
        lemma_kv_fold_region(t, a0, a, keys1, m, mode);
        let vals = m[k];
        assert(t[p] == text(k)) by { assert(kv_toks(keys, m)[pre.len() as int] == text(k)); }
        assert forall|i: int| 0 <= i < vals.len() implies #[trigger] t[p + 1 + i] == vals[i] by {
            assert(kv_toks(keys, m)[pre.len() + 1 + i] == vals[i]);
            assert(t[a + (pre.len() + 1 + i)] == kv_toks(keys, m)[pre.len() + 1 + i]);
        }
        assert(is_key(mode, t[p])) by { if mode { assert(is_ukey(text(k))); } else { assert(is_tkey(text(k))); } }
        lemma_kv_fold_values(t, a0, p, vals.len() as int, mode, k, vals);
        assert(vals.take(vals.len() as int) =~= vals);
        // the key position itself: fold at p+1 with 0 values == insert(k, empty); covered by lemma with j = 0 .. len
        // k is not among keys1 (strictly sorted texts), so the restriction grows by exactly k
        broadcast use axiom_text_injective;
        assert(!keys1.contains(k)) by {
            if keys1.contains(k) {
                let i = choose|i: int| 0 <= i < keys1.len() && keys1[i] == k;
                assert(texts::<4>(keys)[i] == text(k) && texts::<4>(keys)[keys.len() - 1] == text(k));
                assert(lex_lt(texts::<4>(keys)[i], texts::<4>(keys)[keys.len() - 1]));
            }
        }
        assert(kv_restrict(keys1, m).insert(k, vals) =~= kv_restrict(keys, m)) by {
            assert forall|x: tinystr::TinyAsciiStr<4>| keys.contains(x) <==> (keys1.contains(x) || x == k) by {
                if keys.contains(x) {
                    let i = choose|i: int| 0 <= i < keys.len() && keys[i] == x;
                    if i < keys.len() - 1 { assert(keys1[i] == x); }
                }
                if keys1.contains(x) { let i = choose|i: int| 0 <= i < keys1.len() && keys1[i] == x; assert(keys[i] == x); }
                if x == k { assert(keys[keys.len() - 1] == k); }
            }
        }
        assert(kv_toks(keys, m).len() == pre.len() + 1 + vals.len());
    }
}
