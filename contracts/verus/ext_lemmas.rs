// ---- L-RT for the extension part (C05 / C09 / C17 at the Locale level): lemmas over the spec vocabulary only ----------------
// e_ser(m) of a well-formed ExtensionsMap splits into the subtags e_toks(m); the recogniser ext_parse accepts them and prescribes
// exactly m's views again.

pub type KvMap = Map<tinystr::TinyAsciiStr<4>, Seq<Seq<u8>>>;

/// the subtags "k1 v v k2 v ..." for the listed keys, in the listed order
pub open spec fn kv_toks(keys: Seq<tinystr::TinyAsciiStr<4>>, m: KvMap) -> Seq<Seq<u8>>
    decreases keys.len()
{
    if keys.len() == 0 { Seq::empty() } else { kv_toks(keys.drop_last(), m) + seq![text(keys.last())] + m[keys.last()] }
}
pub proof fn lemma_dash_join_one(x: Seq<u8>)
    ensures dash_join(seq![x]) == dash() + x,
{
    assert(seq![x].drop_last() =~= Seq::<Seq<u8>>::empty());
    assert(dash_join(seq![x].drop_last()) =~= Seq::<u8>::empty());
    assert(dash_join(seq![x]) =~= dash() + x);
}
pub proof fn lemma_kv_ser_join(keys: Seq<tinystr::TinyAsciiStr<4>>, m: KvMap)
    ensures kv_ser(keys, m) == dash_join(kv_toks(keys, m)),
    decreases keys.len(),
{
    if keys.len() == 0 {
        assert(dash_join(Seq::<Seq<u8>>::empty()) =~= Seq::<u8>::empty());
    } else {
        let k = keys.last();
        lemma_kv_ser_join(keys.drop_last(), m);
        lemma_dash_join_one(text(k));
        lemma_dash_join_concat(kv_toks(keys.drop_last(), m), seq![text(k)]);
        lemma_dash_join_concat(kv_toks(keys.drop_last(), m) + seq![text(k)], m[k]);
        assert(kv_ser(keys, m) =~= dash_join(kv_toks(keys, m)));
    }
}

/// what a key / value list of a well-formed keyword or tfield map looks like
pub open spec fn kv_keys_ok(keys: Seq<tinystr::TinyAsciiStr<4>>, m: KvMap, mode: bool) -> bool {
    &&& keys.no_duplicates()
    &&& forall|i: int| 0 <= i < keys.len() ==> m.contains_key(#[trigger] keys[i])
            && (if mode { is_ukey(text(keys[i])) } else { is_tkey(text(keys[i])) }) && lower(text(keys[i])) == text(keys[i])
            && vals_wf(m[keys[i]])
}
pub proof fn lemma_kv_toks_len(keys: Seq<tinystr::TinyAsciiStr<4>>, m: KvMap)
    ensures kv_toks(keys, m).len() >= keys.len(),
    decreases keys.len(),
{
    if keys.len() > 0 { lemma_kv_toks_len(keys.drop_last(), m); }
}
/// every token of the key/value region is a key or a value; keys have length 2, values 3..8 (so: no singleton, all u-shaped)
pub proof fn lemma_kv_toks_shape(keys: Seq<tinystr::TinyAsciiStr<4>>, m: KvMap, mode: bool, i: int)
    requires kv_keys_ok(keys, m, mode), 0 <= i < kv_toks(keys, m).len(),
    ensures
        ({ let x = kv_toks(keys, m)[i];
           (is_key(mode, x) && (if mode { is_ukey(x) } else { is_tkey(x) }) && x.len() == 2) || (is_utype(x) && !is_key(mode, x) && lower(x) == x && x != true_word()) }),
        keys.len() > 0 && i == 0 ==> is_key(mode, kv_toks(keys, m)[0]),
    decreases keys.len(),
{
    if keys.len() > 0 {
        let k = keys.last();
        let pre = kv_toks(keys.drop_last(), m);
        assert(kv_keys_ok(keys.drop_last(), m, mode)) by {
            assert forall|i: int, j: int| 0 <= i < keys.drop_last().len() && 0 <= j < keys.drop_last().len() && i != j implies keys.drop_last()[i] != keys.drop_last()[j] by { assert(keys.drop_last()[i] == keys[i] && keys.drop_last()[j] == keys[j]); }
            assert forall|j: int| 0 <= j < keys.drop_last().len() implies m.contains_key(#[trigger] keys.drop_last()[j])
                && (if mode { is_ukey(text(keys.drop_last()[j])) } else { is_tkey(text(keys.drop_last()[j])) }) && lower(text(keys.drop_last()[j])) == text(keys.drop_last()[j])
                && vals_wf(m[keys.drop_last()[j]]) by { assert(keys.drop_last()[j] == keys[j]); }
        }
        assert(keys[keys.len() - 1] == k);
        if i < pre.len() {
            lemma_kv_toks_shape(keys.drop_last(), m, mode, i);
            assert(kv_toks(keys, m)[i] == pre[i]);
            if i == 0 { lemma_kv_toks_len(keys.drop_last(), m); assert(keys.drop_last().len() > 0 || pre.len() == 0); }
        } else if i == pre.len() {
            assert(kv_toks(keys, m)[i] == text(k));
            if i == 0 { }
        } else {
            let j = i - pre.len() - 1;
            assert(kv_toks(keys, m)[i] == m[k][j]);
            assert(is_utype(m[k][j]));
        }
        if i == 0 && pre.len() > 0 { lemma_kv_toks_shape(keys.drop_last(), m, mode, 0); lemma_kv_toks_len(keys.drop_last(), m);
            if keys.drop_last().len() == 0 { assert(pre.len() == 0); } }
    }
}

/// the map with exactly the listed keys
pub open spec fn kv_restrict(keys: Seq<tinystr::TinyAsciiStr<4>>, m: KvMap) -> KvMap {
    m.restrict(keys.to_set())
}

pub proof fn lemma_last_key_at(t: Seq<Seq<u8>>, a: int, p: int, e: int, mode: bool)
    requires a <= p < e <= t.len(), 0 <= a, is_key(mode, t[p]), forall|i: int| p < i < e ==> !is_key(mode, #[trigger] t[i]),
    ensures last_key(t, a, e, mode) == p,
    decreases e - p,
{
    if e - 1 > p { lemma_last_key_at(t, a, p, e - 1, mode); }
}
pub proof fn lemma_kv_fold_no_keys(t: Seq<Seq<u8>>, a: int, e: int, mode: bool)
    requires 0 <= a <= e <= t.len(), forall|i: int| a <= i < e ==> !is_key(mode, #[trigger] t[i]),
    ensures kv_fold(t, a, e, mode) == Map::<tinystr::TinyAsciiStr<4>, Seq<Seq<u8>>>::empty(), last_key(t, a, e, mode) == -1,
    decreases e - a,
{
    if e > a { lemma_kv_fold_no_keys(t, a, e - 1, mode); }
}

/// reading the values of one key: after the key at position p and j of its values, the fold maps the key to those j values
pub proof fn lemma_kv_fold_values(t: Seq<Seq<u8>>, a: int, p: int, j: int, mode: bool, k: tinystr::TinyAsciiStr<4>, vals: Seq<Seq<u8>>)
    requires
        0 <= a <= p, p + 1 + vals.len() <= t.len(), 0 <= j <= vals.len(),
        is_key(mode, t[p]), t[p] == text(k), lower(text(k)) == text(k),
        forall|i: int| 0 <= i < vals.len() ==> #[trigger] t[p + 1 + i] == vals[i],
        vals_wf(vals),
    ensures
        kv_fold(t, a, p + 1 + j, mode) == kv_fold(t, a, p, mode).insert(k, vals.take(j)),
    decreases j,
{
    lemma_tiny_text::<4>(k);
    if j == 0 {
        assert(vals.take(0) =~= Seq::<Seq<u8>>::empty());
    } else {
        lemma_kv_fold_values(t, a, p, j - 1, mode, k, vals);
        let e = p + 1 + j;
        let s = t[e - 1];
        assert(s == vals[j - 1]);
        assert(is_utype(s) && lower(s) == s && s != true_word());
        assert(!is_key(mode, s));
        assert forall|i: int| p < i < e - 1 implies !is_key(mode, #[trigger] t[i]) by {
            assert(t[p + 1 + (i - p - 1)] == vals[i - p - 1]);
            assert(is_utype(vals[i - p - 1]));
        }
        lemma_last_key_at(t, a, p, e - 1, mode);
        let prev = kv_fold(t, a, e - 1, mode);
        assert(prev == kv_fold(t, a, p, mode).insert(k, vals.take(j - 1)));
        assert(prev[k] == vals.take(j - 1));
        assert(vals.take(j - 1).push(s) =~= vals.take(j));
        assert(prev.insert(k, prev[k].push(lower(s))) =~= kv_fold(t, a, p, mode).insert(k, vals.take(j)));
    }
}

/// the fold over "attribute tokens (no keys) + kv_toks(keys, m)" is m restricted to the keys
pub proof fn lemma_kv_fold_region(t: Seq<Seq<u8>>, a0: int, a: int, keys: Seq<tinystr::TinyAsciiStr<4>>, m: KvMap, mode: bool)
    requires
        0 <= a0 <= a, a + kv_toks(keys, m).len() <= t.len(),
        forall|i: int| a0 <= i < a ==> !is_key(mode, #[trigger] t[i]),
        forall|i: int| 0 <= i < kv_toks(keys, m).len() ==> #[trigger] t[a + i] == kv_toks(keys, m)[i],
        kv_keys_ok(keys, m, mode),
    ensures
        kv_fold(t, a0, a + kv_toks(keys, m).len(), mode) == kv_restrict(keys, m),
    decreases keys.len(),
{
    if keys.len() == 0 {
        lemma_kv_fold_no_keys(t, a0, a, mode);
        assert(kv_restrict(keys, m) =~= Map::<tinystr::TinyAsciiStr<4>, Seq<Seq<u8>>>::empty());
    } else {
        let k = keys.last();
        let keys1 = keys.drop_last();
        let pre = kv_toks(keys1, m);
        let p = a + pre.len();
        assert(kv_keys_ok(keys1, m, mode)) by {
            assert forall|i: int, j: int| 0 <= i < keys1.len() && 0 <= j < keys1.len() && i != j implies keys1[i] != keys1[j] by { assert(keys1[i] == keys[i] && keys1[j] == keys[j]); }
            assert forall|j: int| 0 <= j < keys1.len() implies m.contains_key(#[trigger] keys1[j])
                && (if mode { is_ukey(text(keys1[j])) } else { is_tkey(text(keys1[j])) }) && lower(text(keys1[j])) == text(keys1[j])
                && vals_wf(m[keys1[j]]) by { assert(keys1[j] == keys[j]); }
        }
        assert(keys[keys.len() - 1] == k);
        assert forall|i: int| 0 <= i < pre.len() implies #[trigger] t[a + i] == pre[i] by { assert(kv_toks(keys, m)[i] == pre[i]); }
        lemma_kv_fold_region(t, a0, a, keys1, m, mode);
        let vals = m[k];
        assert(t[p] == text(k)) by { assert(kv_toks(keys, m)[pre.len() as int] == text(k)); }
        assert forall|i: int| 0 <= i < vals.len() implies #[trigger] t[p + 1 + i] == vals[i] by {
            assert(kv_toks(keys, m)[pre.len() + 1 + i] == vals[i]);
            assert(t[a + (pre.len() + 1 + i)] == kv_toks(keys, m)[pre.len() + 1 + i]);
        }
        assert(is_key(mode, t[p])) by { if mode { assert(is_ukey(text(k))); } else { assert(is_tkey(text(k))); } }
        lemma_kv_fold_values(t, a0, p, vals.len() as int, mode, k, vals);
        assert(vals.take(vals.len() as int) =~= vals);
        // the key position itself: fold at p+1 with 0 values == insert(k, empty); covered by lemma with j = 0 .. len
        // k is not among keys1 (strictly sorted texts), so the restriction grows by exactly k
        broadcast use axiom_text_injective;
        assert(!keys1.contains(k)) by {
            if keys1.contains(k) {
                let i = choose|i: int| 0 <= i < keys1.len() && keys1[i] == k;
                assert(keys[i] == k && keys[keys.len() - 1] == k);
            }
        }
        assert(kv_restrict(keys1, m).insert(k, vals) =~= kv_restrict(keys, m)) by {
            assert forall|x: tinystr::TinyAsciiStr<4>| keys.contains(x) <==> (keys1.contains(x) || x == k) by {
                if keys.contains(x) {
                    let i = choose|i: int| 0 <= i < keys.len() && keys[i] == x;
                    if i < keys.len() - 1 { assert(keys1[i] == x); }
                }
                if keys1.contains(x) { let i = choose|i: int| 0 <= i < keys1.len() && keys1[i] == x; assert(keys[i] == x); }
                if x == k { assert(keys[keys.len() - 1] == k); }
            }
        }
        assert(kv_toks(keys, m).len() == pre.len() + 1 + vals.len());
    }
}

// ---- the three extension bodies ---------------------------------------------------------------------------------------
pub open spec fn tok_t() -> Seq<u8> { seq![0x74u8] }
pub open spec fn tok_u() -> Seq<u8> { seq![0x75u8] }
pub open spec fn tok_x() -> Seq<u8> { seq![0x78u8] }
pub open spec fn kv_empty() -> KvMap { Map::<tinystr::TinyAsciiStr<4>, Seq<Seq<u8>>>::empty() }
pub open spec fn uv_empty(uv: UView) -> bool { uv.attrs.len() == 0 && uv.kw == kv_empty() }
pub open spec fn tv_empty(tv: TView) -> bool { !tv.has_lang && tv.fields == kv_empty() }
pub open spec fn x_view_wf(xv: Seq<Seq<u8>>) -> bool {
    weakly_sorted(xv) && forall|i: int| 0 <= i < xv.len() ==> is_private(#[trigger] xv[i]) && lower(xv[i]) == xv[i]
}
pub open spec fn t_view_ok(tv: TView) -> bool { t_wf(tv) && (tv.has_lang ==> lid_view_ok(tv.lang)) }
pub open spec fn x_toks(xv: Seq<Seq<u8>>) -> Seq<Seq<u8>> { if xv.len() == 0 { Seq::empty() } else { seq![tok_x()] + xv } }
pub open spec fn u_body(uv: UView, ku: Seq<tinystr::TinyAsciiStr<4>>) -> Seq<Seq<u8>> { uv.attrs + kv_toks(ku, uv.kw) }
pub open spec fn u_toks(uv: UView, ku: Seq<tinystr::TinyAsciiStr<4>>) -> Seq<Seq<u8>> { if uv_empty(uv) { Seq::empty() } else { seq![tok_u()] + u_body(uv, ku) } }
pub open spec fn t_body(tv: TView, kt: Seq<tinystr::TinyAsciiStr<4>>) -> Seq<Seq<u8>> {
    (if tv.has_lang { lid_toks(tv.lang) } else { Seq::<Seq<u8>>::empty() }) + kv_toks(kt, tv.fields)
}
pub open spec fn t_toks(tv: TView, kt: Seq<tinystr::TinyAsciiStr<4>>) -> Seq<Seq<u8>> { if tv_empty(tv) { Seq::empty() } else { seq![tok_t()] + t_body(tv, kt) } }
/// a sequence that is empty or starts with a one-byte subtag (the next singleton)
pub open spec fn starts_singleton(r: Seq<Seq<u8>>) -> bool { r.len() == 0 || r[0].len() == 1 }

pub proof fn lemma_keys_ok_from_wf(keys: Seq<tinystr::TinyAsciiStr<4>>, m: KvMap, mode: bool)
    requires is_sorted_keys(keys, m), kv_wf(m, mode),
    ensures kv_keys_ok(keys, m, mode), kv_restrict(keys, m) == m, (keys.len() == 0) == (m == kv_empty()),
{
    assert forall|i: int| 0 <= i < keys.len() implies m.contains_key(#[trigger] keys[i])
        && (if mode { is_ukey(text(keys[i])) } else { is_tkey(text(keys[i])) }) && lower(text(keys[i])) == text(keys[i]) && vals_wf(m[keys[i]]) by {
        assert(keys.contains(keys[i]));
        let k = keys[i];
        assert forall|j: int| 0 <= j < m[k].len() implies is_utype(#[trigger] m[k][j]) && lower(m[k][j]) == m[k][j] && m[k][j] != true_word() by {}
    }
    assert(keys.no_duplicates()) by {
        assert forall|i: int, j: int| 0 <= i < keys.len() && 0 <= j < keys.len() && i != j implies keys[i] != keys[j] by {
            if i < j { assert(lex_lt(texts::<4>(keys)[i], texts::<4>(keys)[j])); } else { assert(lex_lt(texts::<4>(keys)[j], texts::<4>(keys)[i])); }
        }
    }
    assert(kv_restrict(keys, m) =~= m) by {
        assert forall|k: tinystr::TinyAsciiStr<4>| keys.to_set().contains(k) <==> m.contains_key(k) by { assert(keys.to_set().contains(k) <==> keys.contains(k)); }
    }
    if keys.len() == 0 { assert(m =~= kv_empty()) by { assert forall|k: tinystr::TinyAsciiStr<4>| !m.contains_key(k) by { assert(!keys.contains(k)); } } }
    else { assert(keys.contains(keys[0])); assert(m.contains_key(keys[0])); }
}

pub proof fn lemma_ext_x(xv: Seq<Seq<u8>>, ev: EView)
    requires x_view_wf(xv),
    ensures
        xv.len() == 0 ==> ext_parse(x_toks(xv), ev) == ERes::Ok(ev),
        xv.len() > 0 ==> ext_parse(x_toks(xv), ev) == ERes::Ok(EView { x: Some(xv), ..ev }),
        x_expected(xv, xv),
{
    assert(lowered_run(xv, 0, xv.len() as int) =~= xv);
    if xv.len() > 0 {
        let t = x_toks(xv);
        assert(t[0] == tok_x());
        assert(singleton(t[0]) == Sing::X);
        assert(t.skip(1) =~= xv);
    }
}

pub proof fn lemma_u_first_key_none(t: Seq<Seq<u8>>, e: int)
    requires 0 <= e <= t.len(), forall|i: int| 0 <= i < e ==> (#[trigger] t[i]).len() != 2,
    ensures u_first_key(t, 0, e) == e,
    decreases e,
{
    if e > 0 { lemma_u_first_key_none(t, e - 1); }
}
pub proof fn lemma_u_first_key(t: Seq<Seq<u8>>, n: int, e: int)
    requires 0 <= n <= e <= t.len(), forall|i: int| 0 <= i < n ==> (#[trigger] t[i]).len() != 2, n == e || t[n].len() == 2,
    ensures u_first_key(t, 0, e) == n,
    decreases e - n,
{
    if n == e { lemma_u_first_key_none(t, e); }
    else if n == e - 1 { lemma_u_first_key_none(t, e - 1); }
    else { lemma_u_first_key(t, n, e - 1); }
}

pub proof fn lemma_ext_u(uv: UView, ku: Seq<tinystr::TinyAsciiStr<4>>, xv: Seq<Seq<u8>>, ev: EView)
    requires u_wf(uv), is_sorted_keys(ku, uv.kw), !uv_empty(uv), x_view_wf(xv), ev.u is None,
    ensures
        ext_parse(u_toks(uv, ku) + x_toks(xv), ev) == ext_parse(x_toks(xv), EView { u: Some(u_body(uv, ku) + x_toks(xv)), ..ev }),
        u_expected(u_body(uv, ku) + x_toks(xv), 0, u_end(u_body(uv, ku) + x_toks(xv), 0), uv),
{
    let kv = kv_toks(ku, uv.kw);
    let ub = u_body(uv, ku);
    let body = ub + x_toks(xv);
    let t = u_toks(uv, ku) + x_toks(xv);
    let na = uv.attrs.len() as int;
    let n = ub.len() as int;
    lemma_keys_ok_from_wf(ku, uv.kw, true);
    assert(t[0] == tok_u());
    assert(singleton(t[0]) == Sing::U);
    assert(t.skip(1) =~= body);
    assert forall|i: int| 0 <= i < na implies #[trigger] body[i] == uv.attrs[i] by {}
    assert forall|i: int| 0 <= i < kv.len() implies #[trigger] body[na + i] == kv[i] by {}
    assert forall|i: int| 0 <= i < n implies u_shaped(#[trigger] body[i]) && (body[i].len() == 2 ==> is_ukey(body[i])) && (i < na ==> body[i].len() != 2) by {
        if i < na { assert(body[i] == uv.attrs[i]); assert(is_utype(uv.attrs[i])); }
        else { assert(body[na + (i - na)] == kv[i - na]); lemma_kv_toks_shape(ku, uv.kw, true, i - na); }
    }
    if n < body.len() {
        assert(body[n] == x_toks(xv)[0]);
        assert(body[n] == tok_x());
        assert(!u_shaped(body[n]));
    }
    lemma_u_end(body, 0, n);
    assert(u_keys_ok(body, 0, n));
    assert(body.skip(n) =~= x_toks(xv));
    // expected value
    if kv.len() > 0 { lemma_kv_toks_shape(ku, uv.kw, true, 0); lemma_kv_toks_len(ku, uv.kw); assert(body[na + 0] == kv[0]); assert(body[na].len() == 2); }
    else { lemma_kv_toks_len(ku, uv.kw); }
    if kv.len() == 0 { assert(na == n); }
    lemma_u_first_key(body, na, n);
    assert forall|x: Seq<u8>| uv.attrs.contains(x) <==> (exists|i: int| 0 <= i < u_first_key(body, 0, n) && x == lower(#[trigger] body[i])) by {
        if uv.attrs.contains(x) {
            let i = choose|i: int| 0 <= i < uv.attrs.len() && uv.attrs[i] == x;
            assert(body[i] == x && lower(body[i]) == x);
        }
        if exists|i: int| 0 <= i < na && x == lower(#[trigger] body[i]) {
            let i = choose|i: int| 0 <= i < na && x == lower(#[trigger] body[i]);
            assert(body[i] == uv.attrs[i]);
            assert(uv.attrs[i] == x);
        }
    }
    assert forall|i: int| 0 <= i < na implies !is_key(true, #[trigger] body[i]) by {}
    lemma_kv_fold_region(body, 0, na, ku, uv.kw, true);
    assert(na + kv.len() == n);
}

pub proof fn lemma_tkey_is_stopper(s: Seq<u8>)
    requires is_tkey(s) || s.len() == 1,
    ensures lid_stopper(s), !lang_shaped(s),
{
    if is_tkey(s) { assert(digit(s[1])); assert(!alpha(s[1])); }
    if s.len() == 1 && is_region(s) { }
}

pub proof fn lemma_ext_t(tv: TView, kt: Seq<tinystr::TinyAsciiStr<4>>, rest: Seq<Seq<u8>>, ev: EView)
    requires t_view_ok(tv), is_sorted_keys(kt, tv.fields), !tv_empty(tv), starts_singleton(rest), ev.t is None,
    ensures
        ext_parse(t_toks(tv, kt) + rest, ev) == ext_parse(rest, EView { t: Some(t_body(tv, kt) + rest), ..ev }),
        t_expected(t_body(tv, kt) + rest, tv),
{
    let kv = kv_toks(kt, tv.fields);
    let lt = if tv.has_lang { lid_toks(tv.lang) } else { Seq::<Seq<u8>>::empty() };
    let tb = t_body(tv, kt);
    let body = tb + rest;
    let t = t_toks(tv, kt) + rest;
    let f0 = lt.len() as int;
    let n = tb.len() as int;
    lemma_keys_ok_from_wf(kt, tv.fields, false);
    lemma_kv_toks_len(kt, tv.fields);
    assert(t[0] == tok_t());
    assert(singleton(t[0]) == Sing::T);
    assert(t.skip(1) =~= body);
    assert(body =~= lt + (kv + rest));
    assert forall|i: int| 0 <= i < kv.len() implies #[trigger] body[f0 + i] == kv[i] by {}
    if n < body.len() { assert(body[n] == rest[0]); }
    // the first subtag after the tlang cannot continue a language identifier
    let after = kv + rest;
    if after.len() > 0 {
        if kv.len() > 0 { lemma_kv_toks_shape(kt, tv.fields, false, 0); assert(after[0] == kv[0]); lemma_tkey_is_stopper(after[0]); }
        else { assert(after[0] == rest[0]); lemma_tkey_is_stopper(after[0]); }
    }
    if tv.has_lang {
        lemma_lid_roundtrip_suffix(tv.lang, after);
        assert(is_language(body[0]));
        assert(lang_shaped(body[0]));
        assert(t_f0(body) == f0);
    } else {
        assert(kt.len() > 0);
        lemma_kv_toks_shape(kt, tv.fields, false, 0);
        assert(body[0] == kv[0]);
        lemma_tkey_is_stopper(body[0]);
        assert(!t_has_lang(body));
        assert(t_f0(body) == 0);
    }
    // the field region
    assert forall|i: int| f0 <= i < n implies (#[trigger] body[i]).len() != 1 && (is_tkey(body[i]) || is_utype(body[i])) by {
        assert(body[f0 + (i - f0)] == kv[i - f0]);
        lemma_kv_toks_shape(kt, tv.fields, false, i - f0);
    }
    lemma_tf_end(body, f0, n);
    if kv.len() > 0 {
        lemma_kv_toks_shape(kt, tv.fields, false, 0);
        assert(body[f0 + 0] == kv[0]);
        assert(t_has_fields(body));
    } else {
        assert(n == f0);
        if f0 < body.len() { assert(body[f0] == rest[0]); assert(!is_tkey(body[f0])); }
        assert(!t_has_fields(body));
    }
    assert(t_end(body) == n);
    if f0 < body.len() { lemma_tkey_is_stopper(body[f0]); }
    assert(!t_err(body));
    assert(body.skip(n) =~= rest);
    lemma_kv_fold_region(body, f0, f0, kt, tv.fields, false);
    assert(f0 + kv.len() == n);
}

/// L-RT for the extension part: the recogniser accepts the subtags of the canonical extension string and prescribes the
/// three views again (t before u before x, each absent when empty)
pub proof fn lemma_ext_roundtrip(tv: TView, kt: Seq<tinystr::TinyAsciiStr<4>>, uv: UView, ku: Seq<tinystr::TinyAsciiStr<4>>, xv: Seq<Seq<u8>>)
    requires t_view_ok(tv), is_sorted_keys(kt, tv.fields), u_wf(uv), is_sorted_keys(ku, uv.kw), x_view_wf(xv),
    ensures
        ext_parse(t_toks(tv, kt) + (u_toks(uv, ku) + x_toks(xv)), ev0()) == ERes::Ok(EView {
            t: if tv_empty(tv) { None } else { Some(t_body(tv, kt) + (u_toks(uv, ku) + x_toks(xv))) },
            u: if uv_empty(uv) { None } else { Some(u_body(uv, ku) + x_toks(xv)) },
            x: if xv.len() == 0 { None } else { Some(xv) } }),
        !tv_empty(tv) ==> t_expected(t_body(tv, kt) + (u_toks(uv, ku) + x_toks(xv)), tv),
        !uv_empty(uv) ==> u_expected(u_body(uv, ku) + x_toks(xv), 0, u_end(u_body(uv, ku) + x_toks(xv), 0), uv),
        x_expected(xv, xv),
{
    let rest = u_toks(uv, ku) + x_toks(xv);
    assert(starts_singleton(rest)) by {
        if !uv_empty(uv) { assert(rest[0] == tok_u()); }
        else if xv.len() > 0 { assert(rest =~= x_toks(xv)); assert(rest[0] == tok_x()); }
        else { assert(rest =~= Seq::<Seq<u8>>::empty()); }
    }
    let ev1 = if tv_empty(tv) { ev0() } else { EView { t: Some(t_body(tv, kt) + rest), ..ev0() } };
    if !tv_empty(tv) { lemma_ext_t(tv, kt, rest, ev0()); } else { assert(t_toks(tv, kt) + rest =~= rest); }
    assert(ext_parse(t_toks(tv, kt) + rest, ev0()) == ext_parse(rest, ev1));
    let ev2 = if uv_empty(uv) { ev1 } else { EView { u: Some(u_body(uv, ku) + x_toks(xv)), ..ev1 } };
    if !uv_empty(uv) { lemma_ext_u(uv, ku, xv, ev1); } else { assert(rest =~= x_toks(xv)); }
    assert(ext_parse(rest, ev1) == ext_parse(x_toks(xv), ev2));
    lemma_ext_x(xv, ev2);
}

/// reachability witness for the preconditions above (vacuity guard): the views of "-u-foo-x-a" satisfy them and the
/// conclusion says what it should for them
pub proof fn lemma_ext_roundtrip_witness()
    ensures ({
        let foo = seq![0x66u8, 0x6fu8, 0x6fu8];
        let a = seq![0x61u8];
        ext_parse(seq![tok_u(), foo, tok_x(), a], ev0()) == ERes::Ok(EView { t: None, u: Some(seq![foo, tok_x(), a]), x: Some(seq![a]) })
    }),
{
    let foo = seq![0x66u8, 0x6fu8, 0x6fu8];
    let a = seq![0x61u8];
    let uv = UView { attrs: seq![foo], kw: kv_empty() };
    let tv = TView { has_lang: false, lang: arbitrary(), fields: kv_empty() };
    let xv = seq![a];
    let ke = Seq::<tinystr::TinyAsciiStr<4>>::empty();
    assert(alnum(0x66u8) && alnum(0x6fu8) && alnum(0x61u8));
    assert(is_utype(foo)) by { assert forall|i: int| 0 <= i < foo.len() implies alnum(#[trigger] foo[i]) by {} }
    assert(lower(foo) =~= foo);
    assert(is_private(a)) by { assert forall|i: int| 0 <= i < a.len() implies alnum(#[trigger] a[i]) by {} }
    assert(lower(a) =~= a);
    lemma_lex_le_refl(a);
    assert(x_view_wf(xv));
    assert(u_wf(uv));
    assert(texts::<4>(ke) =~= Seq::<Seq<u8>>::empty());
    assert(is_sorted_keys(ke, kv_empty()));
    lemma_ext_roundtrip(tv, ke, uv, ke, xv);
    assert(kv_toks(ke, kv_empty()) =~= Seq::<Seq<u8>>::empty());
    assert(t_toks(tv, ke) + (u_toks(uv, ke) + x_toks(xv)) =~= seq![tok_u(), foo, tok_x(), a]);
    assert(u_body(uv, ke) + x_toks(xv) =~= seq![foo, tok_x(), a]);
}

// ---- uniqueness of the prescribed values ---------------------------------------------------------------------------------
pub open spec fn lexf() -> spec_fn(Seq<u8>, Seq<u8>) -> bool { |a: Seq<u8>, b: Seq<u8>| lex_le(a, b) }
/// two weakly sorted sequences with the same multiset of elements are equal
pub proof fn lemma_weak_sorted_unique(v: Seq<Seq<u8>>, w: Seq<Seq<u8>>)
    requires weakly_sorted(v), weakly_sorted(w), v.to_multiset() == w.to_multiset(),
    ensures v == w,
{
    let leq = lexf();
    assert(vstd::relations::total_ordering(leq)) by {
        assert forall|a: Seq<u8>| #[trigger] leq(a, a) by { lemma_lex_le_refl(a); }
        assert forall|a: Seq<u8>, b: Seq<u8>| #[trigger] leq(a, b) && #[trigger] leq(b, a) implies a == b by { lemma_lex_le_antisym(a, b); }
        assert forall|a: Seq<u8>, b: Seq<u8>, c: Seq<u8>| #[trigger] leq(a, b) && #[trigger] leq(b, c) implies leq(a, c) by { lemma_lex_le_trans(a, b, c); }
        assert forall|a: Seq<u8>, b: Seq<u8>| #[trigger] leq(a, b) || #[trigger] leq(b, a) by { lemma_lex_le_total(a, b); }
    }
    assert(vstd::relations::sorted_by(v, leq)) by { assert forall|i: int, j: int| 0 <= i < j < v.len() implies #[trigger] leq(v[i], v[j]) by { assert(lex_le(v[i], v[j])); } }
    assert(vstd::relations::sorted_by(w, leq)) by { assert forall|i: int, j: int| 0 <= i < j < w.len() implies #[trigger] leq(w[i], w[j]) by { assert(lex_le(w[i], w[j])); } }
    vstd::seq_lib::lemma_sorted_unique(v, w, leq);
}
pub proof fn lemma_x_expected_unique(b: Seq<Seq<u8>>, v: Seq<Seq<u8>>, w: Seq<Seq<u8>>)
    requires x_expected(b, v), x_expected(b, w),
    ensures v == w,
{ lemma_weak_sorted_unique(v, w); }
pub proof fn lemma_u_expected_unique(b: Seq<Seq<u8>>, a: int, e: int, v: UView, w: UView)
    requires u_expected(b, a, e, v), u_expected(b, a, e, w),
    ensures v == w,
{
    assert forall|x: Seq<u8>| v.attrs.contains(x) <==> w.attrs.contains(x) by {
        assert(v.attrs.contains(x) <==> (exists|i: int| a <= i < u_first_key(b, a, e) && x == lower(#[trigger] b[i])));
        assert(w.attrs.contains(x) <==> (exists|i: int| a <= i < u_first_key(b, a, e) && x == lower(#[trigger] b[i])));
    }
    lemma_strict_sorted_same_set(v.attrs, w.attrs);
}
pub proof fn lemma_t_expected_unique(b: Seq<Seq<u8>>, v: TView, w: TView)
    requires t_expected(b, v), t_expected(b, w), !v.has_lang ==> v.lang == w.lang,
    ensures v == w,
{
    if v.has_lang { lemma_lid_expected_unique(b, v.lang, w.lang); }
}

// ---- the canonical extension string is the dash-join of e_toks ------------------------------------------------------------
pub open spec fn e_toks(tv: TView, kt: Seq<tinystr::TinyAsciiStr<4>>, uv: UView, ku: Seq<tinystr::TinyAsciiStr<4>>, xv: Seq<Seq<u8>>) -> Seq<Seq<u8>> {
    t_toks(tv, kt) + (u_toks(uv, ku) + x_toks(xv))
}
pub proof fn lemma_dash_lid_ser(v: LidView)
    ensures dash() + lid_ser(v) == dash_join(lid_toks(v)),
{
    lemma_lid_ser_is_join(v);
    let rest = opt_seq(v.script) + opt_seq(v.region) + v.variants;
    lemma_dash_join_front(lang_text(v.lang), rest);
    assert(dash() + lid_ser(v) =~= dash() + lang_text(v.lang) + dash_join(rest));
}
pub proof fn lemma_e_ser_join(tv: TView, uv: UView, xv: Seq<Seq<u8>>)
    ensures t_ser(tv) + u_ser(uv) + x_ser(xv) == dash_join(e_toks(tv, sorted_keys(tv.fields), uv, sorted_keys(uv.kw), xv)),
{
    let kt = sorted_keys(tv.fields);
    let ku = sorted_keys(uv.kw);
    let e = Seq::<u8>::empty();
    assert(dash_join(Seq::<Seq<u8>>::empty()) =~= e);
    // x
    assert(x_ser(xv) == dash_join(x_toks(xv))) by {
        if xv.len() > 0 { lemma_dash_join_one(tok_x()); lemma_dash_join_concat(seq![tok_x()], xv); assert(lit_x() =~= dash() + tok_x()); }
    }
    // u
    assert(u_ser(uv) == dash_join(u_toks(uv, ku))) by {
        if !uv_empty(uv) {
            lemma_kv_ser_join(ku, uv.kw);
            lemma_dash_join_one(tok_u());
            lemma_dash_join_concat(uv.attrs, kv_toks(ku, uv.kw));
            lemma_dash_join_concat(seq![tok_u()], u_body(uv, ku));
            assert(lit_u() =~= dash() + tok_u());
            assert(u_ser(uv) =~= dash_join(u_toks(uv, ku)));
        }
    }
    // t
    assert(t_ser(tv) == dash_join(t_toks(tv, kt))) by {
        if !tv_empty(tv) {
            lemma_kv_ser_join(kt, tv.fields);
            lemma_dash_join_one(tok_t());
            let lt = if tv.has_lang { lid_toks(tv.lang) } else { Seq::<Seq<u8>>::empty() };
            if tv.has_lang { lemma_dash_lid_ser(tv.lang); }
            lemma_dash_join_concat(lt, kv_toks(kt, tv.fields));
            lemma_dash_join_concat(seq![tok_t()], t_body(tv, kt));
            assert(lit_t() =~= dash() + tok_t());
            assert(t_ser(tv) =~= dash_join(t_toks(tv, kt)));
        }
    }
    lemma_dash_join_concat(u_toks(uv, ku), x_toks(xv));
    lemma_dash_join_concat(t_toks(tv, kt), u_toks(uv, ku) + x_toks(xv));
    assert(t_ser(tv) + u_ser(uv) + x_ser(xv) =~= dash_join(t_toks(tv, kt)) + (dash_join(u_toks(uv, ku)) + dash_join(x_toks(xv))));
}

// ---- the whole locale string --------------------------------------------------------------------------------------------
pub proof fn lemma_kv_toks_alnum(keys: Seq<tinystr::TinyAsciiStr<4>>, m: KvMap, mode: bool, i: int)
    requires kv_keys_ok(keys, m, mode), 0 <= i < kv_toks(keys, m).len(),
    ensures all_alnum(kv_toks(keys, m)[i]),
{
    lemma_kv_toks_shape(keys, m, mode, i);
    let x = kv_toks(keys, m)[i];
    if x.len() == 2 && (is_ukey(x) || is_tkey(x)) {
        assert forall|j: int| 0 <= j < x.len() implies alnum(#[trigger] x[j]) by { if j == 0 { assert(alnum(x[0])); } else { assert(j == 1); assert(alnum(x[1])); } }
    }
}
pub proof fn lemma_lid_toks_alnum(v: LidView, i: int)
    requires lid_view_ok(v), 0 <= i < lid_toks(v).len(),
    ensures all_alnum(lid_toks(v)[i]),
{
    lemma_und_props();
    let t = lid_toks(v);
    let ns: int = if v.script is Some { 1 } else { 0 };
    let nr: int = if v.region is Some { 1 } else { 0 };
    if i == 0 { assert(t[0] == lang_text(v.lang)); lemma_alpha_is_alnum(t[0]); }
    else if v.script is Some && i == 1 { assert(t[1] == v.script->0); lemma_alpha_is_alnum(t[1]); }
    else if v.region is Some && i == 1 + ns { assert(t[i] == v.region->0); lemma_alpha_is_alnum(t[i]); }
    else { assert(t[i] == v.variants[i - 1 - ns - nr]); assert(is_variant_st(t[i])); }
}
pub proof fn lemma_e_toks_alnum(tv: TView, kt: Seq<tinystr::TinyAsciiStr<4>>, uv: UView, ku: Seq<tinystr::TinyAsciiStr<4>>, xv: Seq<Seq<u8>>, i: int)
    requires t_view_ok(tv), is_sorted_keys(kt, tv.fields), u_wf(uv), is_sorted_keys(ku, uv.kw), x_view_wf(xv), 0 <= i < e_toks(tv, kt, uv, ku, xv).len(),
    ensures all_alnum(e_toks(tv, kt, uv, ku, xv)[i]), e_toks(tv, kt, uv, ku, xv)[0].len() == 1,
{
    lemma_keys_ok_from_wf(kt, tv.fields, false);
    lemma_keys_ok_from_wf(ku, uv.kw, true);
    let tt = t_toks(tv, kt); let ut = u_toks(uv, ku); let xt = x_toks(xv);
    let e = e_toks(tv, kt, uv, ku, xv);
    assert(alnum(0x74u8) && alnum(0x75u8) && alnum(0x78u8));
    assert(e[0].len() == 1) by {
        if tt.len() > 0 { assert(e[0] == tok_t()); } else if ut.len() > 0 { assert(e[0] == tok_u()); } else { assert(e[0] == tok_x()); }
    }
    let x = e[i];
    if i < tt.len() {
        assert(x == tt[i]);
        if i == 0 { assert(x == tok_t()); assert forall|j: int| 0 <= j < x.len() implies alnum(#[trigger] x[j]) by {} }
        else {
            let lt = if tv.has_lang { lid_toks(tv.lang) } else { Seq::<Seq<u8>>::empty() };
            let j = i - 1;
            assert(x == t_body(tv, kt)[j]);
            if j < lt.len() { assert(x == lt[j]); lemma_lid_toks_alnum(tv.lang, j); }
            else { assert(x == kv_toks(kt, tv.fields)[j - lt.len()]); lemma_kv_toks_alnum(kt, tv.fields, false, j - lt.len()); }
        }
    } else if i < tt.len() + ut.len() {
        let i2 = i - tt.len();
        assert(x == ut[i2]);
        if i2 == 0 { assert(x == tok_u()); assert forall|j: int| 0 <= j < x.len() implies alnum(#[trigger] x[j]) by {} }
        else {
            let j = i2 - 1;
            assert(x == u_body(uv, ku)[j]);
            if j < uv.attrs.len() { assert(x == uv.attrs[j]); assert(is_utype(x)); }
            else { assert(x == kv_toks(ku, uv.kw)[j - uv.attrs.len()]); lemma_kv_toks_alnum(ku, uv.kw, true, j - uv.attrs.len()); }
        }
    } else {
        let i3 = i - tt.len() - ut.len();
        assert(x == xt[i3]);
        if i3 == 0 { assert(x == tok_x()); assert forall|j: int| 0 <= j < x.len() implies alnum(#[trigger] x[j]) by {} }
        else { assert(x == xv[i3 - 1]); assert(is_private(x)); }
    }
}

/// L-RT for a whole locale: the canonical string lid_ser(id) + (t_ser + u_ser + x_ser) splits into id's subtags followed by
/// e_toks; the language-identifier production consumes exactly id's subtags and prescribes id's view; the recogniser accepts
/// the rest and prescribes the three extension views
pub proof fn lemma_locale_roundtrip_views(idv: LidView, tv: TView, uv: UView, xv: Seq<Seq<u8>>)
    requires
        lid_view_ok(idv), t_view_ok(tv), u_wf(uv), x_view_wf(xv),
        is_sorted_keys(sorted_keys(tv.fields), tv.fields), is_sorted_keys(sorted_keys(uv.kw), uv.kw),
    ensures ({
        let kt = sorted_keys(tv.fields); let ku = sorted_keys(uv.kw);
        let ts = subtags_of(lid_ser(idv) + (t_ser(tv) + u_ser(uv) + x_ser(xv)));
        let e = e_toks(tv, kt, uv, ku, xv);
        &&& ts == lid_toks(idv) + e
        &&& is_language(ts[0])
        &&& lid_end(ts) == lid_toks(idv).len()
        &&& lid_expected(ts, idv)
        &&& ts.skip(lid_end(ts)) == e
        &&& ext_parse(e, ev0()) == ERes::Ok(EView {
                t: if tv_empty(tv) { None } else { Some(t_body(tv, kt) + (u_toks(uv, ku) + x_toks(xv))) },
                u: if uv_empty(uv) { None } else { Some(u_body(uv, ku) + x_toks(xv)) },
                x: if xv.len() == 0 { None } else { Some(xv) } })
        &&& (!tv_empty(tv) ==> t_expected(t_body(tv, kt) + (u_toks(uv, ku) + x_toks(xv)), tv))
        &&& (!uv_empty(uv) ==> u_expected(u_body(uv, ku) + x_toks(xv), 0, u_end(u_body(uv, ku) + x_toks(xv), 0), uv))
        &&& x_expected(xv, xv)
    }),
{
    let kt = sorted_keys(tv.fields); let ku = sorted_keys(uv.kw);
    let e = e_toks(tv, kt, uv, ku, xv);
    let h = lang_text(idv.lang);
    let rid = opt_seq(idv.script) + opt_seq(idv.region) + idv.variants;
    lemma_e_ser_join(tv, uv, xv);
    lemma_lid_ser_is_join(idv);
    lemma_dash_join_concat(rid, e);
    let s = lid_ser(idv) + (t_ser(tv) + u_ser(uv) + x_ser(xv));
    assert(s =~= h + dash_join(rid + e));
    // no token contains a separator
    lemma_und_props();
    lemma_alpha_is_alnum(h);
    lemma_alnum_no_sep(h);
    assert(lid_toks(idv) =~= seq![h] + rid);
    assert forall|i: int| 0 <= i < (rid + e).len() implies no_sep(#[trigger] (rid + e)[i]) by {
        if i < rid.len() { assert((rid + e)[i] == lid_toks(idv)[i + 1]); lemma_lid_toks_alnum(idv, i + 1); lemma_alnum_no_sep((rid + e)[i]); }
        else { assert((rid + e)[i] == e[i - rid.len()]); lemma_e_toks_alnum(tv, kt, uv, ku, xv, i - rid.len()); lemma_alnum_no_sep((rid + e)[i]); }
    }
    lemma_split_head_join(h, rid + e);
    let ts = subtags_of(s);
    assert(ts =~= lid_toks(idv) + e);
    if e.len() > 0 { lemma_e_toks_alnum(tv, kt, uv, ku, xv, 0); lemma_tkey_is_stopper(e[0]); }
    lemma_lid_roundtrip_suffix(idv, e);
    assert(ts.skip(lid_end(ts)) =~= e);
    lemma_ext_roundtrip(tv, kt, uv, ku, xv);
}

// ---- every (finite) keyword / tfield map can list its keys in strictly increasing order ------------------------------------
pub open spec fn insert_sorted(keys: Seq<tinystr::TinyAsciiStr<4>>, k: tinystr::TinyAsciiStr<4>) -> Seq<tinystr::TinyAsciiStr<4>>
    decreases keys.len()
{
    if keys.len() == 0 { seq![k] }
    else if lex_lt(text(k), text(keys[0])) { seq![k] + keys }
    else { seq![keys[0]] + insert_sorted(keys.skip(1), k) }
}
pub proof fn lemma_insert_sorted(keys: Seq<tinystr::TinyAsciiStr<4>>, k: tinystr::TinyAsciiStr<4>)
    requires strictly_sorted(texts::<4>(keys)), !keys.contains(k),
    ensures
        strictly_sorted(texts::<4>(insert_sorted(keys, k))),
        forall|x: tinystr::TinyAsciiStr<4>| insert_sorted(keys, k).contains(x) <==> (keys.contains(x) || x == k),
        insert_sorted(keys, k).len() == keys.len() + 1,
        keys.len() > 0 ==> (insert_sorted(keys, k)[0] == keys[0] || insert_sorted(keys, k)[0] == k),
    decreases keys.len(),
{
    broadcast use axiom_text_injective;
    let r = insert_sorted(keys, k);
    if keys.len() == 0 {
        assert(texts::<4>(r) =~= seq![text(k)]);
        assert forall|x: tinystr::TinyAsciiStr<4>| r.contains(x) <==> (keys.contains(x) || x == k) by { if x == k { assert(r[0] == k); } }
    } else if lex_lt(text(k), text(keys[0])) {
        let tr = texts::<4>(r);
        assert forall|i: int, j: int| 0 <= i < j < tr.len() implies lex_lt(#[trigger] tr[i], #[trigger] tr[j]) by {
            if i == 0 {
                assert(tr[0] == text(k));
                assert(tr[j] == texts::<4>(keys)[j - 1]);
                if j - 1 > 0 { assert(lex_lt(texts::<4>(keys)[0], texts::<4>(keys)[j - 1])); lemma_lex_lt_trans(text(k), text(keys[0]), tr[j]); }
                else { assert(tr[j] == text(keys[0])); }
            } else {
                assert(tr[i] == texts::<4>(keys)[i - 1] && tr[j] == texts::<4>(keys)[j - 1]);
            }
        }
        assert forall|x: tinystr::TinyAsciiStr<4>| r.contains(x) <==> (keys.contains(x) || x == k) by {
            if r.contains(x) { let i = choose|i: int| 0 <= i < r.len() && r[i] == x; if i > 0 { assert(keys[i - 1] == x); } }
            if keys.contains(x) { let i = choose|i: int| 0 <= i < keys.len() && keys[i] == x; assert(r[i + 1] == x); }
            if x == k { assert(r[0] == k); }
        }
    } else {
        let rest = keys.skip(1);
        assert(texts::<4>(rest) =~= texts::<4>(keys).skip(1));
        assert forall|i: int, j: int| 0 <= i < j < texts::<4>(rest).len() implies lex_lt(#[trigger] texts::<4>(rest)[i], #[trigger] texts::<4>(rest)[j]) by {
            assert(texts::<4>(rest)[i] == texts::<4>(keys)[i + 1] && texts::<4>(rest)[j] == texts::<4>(keys)[j + 1]);
        }
        assert(!rest.contains(k)) by { if rest.contains(k) { let i = choose|i: int| 0 <= i < rest.len() && rest[i] == k; assert(keys[i + 1] == k); } }
        lemma_insert_sorted(rest, k);
        let r2 = insert_sorted(rest, k);
        assert(r =~= seq![keys[0]] + r2);
        // keys[0] < k (k != keys[0], not k < keys[0], total order) and keys[0] < every element of rest
        assert(keys[0] != k) by { assert(keys.contains(keys[0])); }
        assert(text(keys[0]) != text(k));
        lemma_lex_le_total(text(k), text(keys[0]));
        assert(lex_lt(text(keys[0]), text(k)));
        let tr = texts::<4>(r);
        assert forall|i: int, j: int| 0 <= i < j < tr.len() implies lex_lt(#[trigger] tr[i], #[trigger] tr[j]) by {
            if i == 0 {
                assert(tr[0] == text(keys[0]));
                let y = r2[j - 1];
                assert(tr[j] == text(y));
                assert(r2.contains(y));
                if y != k {
                    assert(rest.contains(y));
                    let q = choose|q: int| 0 <= q < rest.len() && rest[q] == y;
                    assert(texts::<4>(keys)[q + 1] == text(y));
                    assert(lex_lt(texts::<4>(keys)[0], texts::<4>(keys)[q + 1]));
                }
            } else {
                assert(tr[i] == texts::<4>(r2)[i - 1] && tr[j] == texts::<4>(r2)[j - 1]);
            }
        }
        assert forall|x: tinystr::TinyAsciiStr<4>| r.contains(x) <==> (keys.contains(x) || x == k) by {
            if r.contains(x) { let i = choose|i: int| 0 <= i < r.len() && r[i] == x; if i > 0 { assert(r2[i - 1] == x); assert(r2.contains(x)); if x != k { assert(rest.contains(x)); let q = choose|q: int| 0 <= q < rest.len() && rest[q] == x; assert(keys[q + 1] == x); } } else { assert(keys[0] == x); } }
            if keys.contains(x) { let i = choose|i: int| 0 <= i < keys.len() && keys[i] == x; if i == 0 { assert(r[0] == x); } else { assert(rest[i - 1] == x); assert(rest.contains(x)); assert(r2.contains(x)); let q = choose|q: int| 0 <= q < r2.len() && r2[q] == x; assert(r[q + 1] == x); } }
            if x == k { assert(r2.contains(k)); let q = choose|q: int| 0 <= q < r2.len() && r2[q] == k; assert(r[q + 1] == k); }
        }
    }
}
pub proof fn lemma_keys_listable(m: KvMap)
    ensures is_sorted_keys(sorted_keys(m), m),
    decreases m.dom().len(),
{
    if m.dom().len() == 0 {
        let keys = Seq::<tinystr::TinyAsciiStr<4>>::empty();
        assert(texts::<4>(keys) =~= Seq::<Seq<u8>>::empty());
        assert forall|k: tinystr::TinyAsciiStr<4>| keys.contains(k) <==> m.contains_key(k) by {
            if m.contains_key(k) { assert(m.dom().contains(k)); assert(m.dom().len() > 0); }
        }
        assert(is_sorted_keys(keys, m));
    } else {
        let k = m.dom().choose();
        assert(m.dom().contains(k));
        let m1 = m.remove(k);
        assert(m1.dom() =~= m.dom().remove(k));
        lemma_keys_listable(m1);
        let k1 = sorted_keys(m1);
        assert(!k1.contains(k));
        lemma_insert_sorted(k1, k);
        let keys = insert_sorted(k1, k);
        assert forall|x: tinystr::TinyAsciiStr<4>| keys.contains(x) <==> m.contains_key(x) by {
            assert(k1.contains(x) <==> m1.contains_key(x));
        }
        assert(is_sorted_keys(keys, m));
    }
}
