
// ---- must-fail variants (vacuity guard): EVERY function below must be REJECTED ----
pub mod zz_must_fail {
    #[allow(unused_imports)] use vstd::prelude::*;
    #[allow(unused_imports)] use crate::vspec::*;
    verus! {
    pub proof fn zz_must_fail_false()
        ensures false,
    {
        broadcast use axiom_text_injective, axiom_peekable_items, axiom_split_iter_items, axiom_display_ref, axiom_display_tiny, axiom_btree_iter_sorted;
        axiom_tiny_ord::<4>();
        axiom_tiny_ord::<8>();
        lemma_tiny_text_all::<8>();
    }
    pub proof fn zz_must_fail_fmc<S>(s: Seq<S>)
        ensures fmc_spec(s, utype_opt_of::<S>()) is Ok,
    { lemma_fmc_utype::<S>(s); }
    pub proof fn zz_must_fail_ext_roundtrip(tv: TView, kt: Seq<tinystr::TinyAsciiStr<4>>, uv: UView, ku: Seq<tinystr::TinyAsciiStr<4>>, xv: Seq<Seq<u8>>)
        requires t_view_ok(tv), is_sorted_keys(kt, tv.fields), u_wf(uv), is_sorted_keys(ku, uv.kw), x_view_wf(xv),
        ensures ext_parse(t_toks(tv, kt) + (u_toks(uv, ku) + x_toks(xv)), ev0()) is Err,
    { lemma_ext_roundtrip(tv, kt, uv, ku, xv); }
    pub proof fn zz_must_fail_locale_roundtrip(l: crate::Locale, l2: crate::Locale)
        requires crate::locale_wf(l),
            !crate::parser::locale_err(subtags_of(crate::locale_ser(l))) ==> crate::parser::locale_expected(subtags_of(crate::locale_ser(l)), l2),
        ensures l2.id.view().variants.len() == 0,
    { crate::lemma_locale_roundtrip(l, l2); }
    pub proof fn zz_must_fail_case_invariant(a: Seq<u8>, b: Seq<u8>, l: crate::Locale)
        requires a.len() == b.len(),
        ensures crate::parser::locale_err(subtags_of(a)) == crate::parser::locale_err(subtags_of(b)),
    { if same_fold_bytes(a, b) { crate::lemma_locale_case_sep_invariant(a, b, l); } }
    pub proof fn zz_must_fail_order(tv: TView, kt: Seq<tinystr::TinyAsciiStr<4>>, mt: KvMap, al: Seq<Seq<u8>>, ku: Seq<tinystr::TinyAsciiStr<4>>, mu: KvMap, uv: UView, xv: Seq<Seq<u8>>)
        requires
            tv.has_lang ==> lid_view_ok(tv.lang), kv_keys_ok(kt, mt, false), tv.fields == kv_restrict(kt, mt),
            attr_listing_ok(al), kv_keys_ok(ku, mu, true), u_gen_view_ok(al, ku, mu, uv), x_view_wf(xv),
        ensures ext_parse(u_gen_toks(al, ku, mu) + (t_gen_toks(tv, kt, mt) + x_toks(xv)), ev0())->Ok_0.u is None,
    { lemma_ext_order_invariant(true, tv, kt, mt, al, ku, mu, uv, xv); }
    pub fn zz_must_fail_locale(v: &[u8]) {
        let r = crate::Locale::from_bytes(v);
        assert(r is Ok);
    }
    pub fn zz_must_fail_set_keyword(u: &mut crate::extensions::UnicodeExtensionList, k: &[u8], vals: &[&[u8]])
        requires old(u).wf(),
    {
        let r = u.set_keyword(k, vals);
        assert(r is Ok);
    }
    pub fn zz_must_fail_set_keyword_err(u: &mut crate::extensions::UnicodeExtensionList, k: &[u8], vals: &[&[u8]])
        requires old(u).wf(),
    {
        let ghost before = u.view();
        let r = u.set_keyword(k, vals);
        assert(u.view() == before);
    }
    }
}
