// ---- L-INV for the extension grammar (C09 at the Locale level): letter case and separator choice ---------------------------
// Two subtag sequences that differ only in letter case are accepted alike by ext_parse and are prescribed the same values.

pub proof fn lemma_fold_shapes(a: Seq<u8>, b: Seq<u8>)
    requires same_fold(a, b),
    ensures
        a.len() == b.len(), lower(a) == lower(b),
        u_shaped(a) == u_shaped(b), is_utype(a) == is_utype(b), is_ukey(a) == is_ukey(b), is_tkey(a) == is_tkey(b),
        lang_shaped(a) == lang_shaped(b), is_private(a) == is_private(b), singleton(a) == singleton(b),
        is_key(true, a) == is_key(true, b), is_key(false, a) == is_key(false, b),
        is_language(a) == is_language(b),
{
    lemma_fold_bytes(a, b);
    lemma_fold_classes(a, b);
    assert(all_alnum(a) == all_alnum(b)) by {
        if all_alnum(a) { assert forall|i: int| 0 <= i < b.len() implies alnum(#[trigger] b[i]) by { assert(alnum(a[i])); } }
        if all_alnum(b) { assert forall|i: int| 0 <= i < a.len() implies alnum(#[trigger] a[i]) by { assert(alnum(b[i])); } }
    }
    assert(all_alpha(a) == all_alpha(b)) by {
        if all_alpha(a) { assert forall|i: int| 0 <= i < b.len() implies alpha(#[trigger] b[i]) by { assert(alpha(a[i])); } }
        if all_alpha(b) { assert forall|i: int| 0 <= i < a.len() implies alpha(#[trigger] a[i]) by { assert(alpha(b[i])); } }
    }
    if a.len() == 2 { assert(alnum(a[0]) == alnum(b[0]) && alpha(a[1]) == alpha(b[1]) && alpha(a[0]) == alpha(b[0]) && digit(a[1]) == digit(b[1])); }
    if a.len() == 1 { assert(lower_b(a[0]) == lower_b(b[0])); }
}
pub proof fn lemma_fold_skip(s: Seq<Seq<u8>>, t: Seq<Seq<u8>>, k: int)
    requires same_fold_seq(s, t), 0 <= k <= s.len(),
    ensures same_fold_seq(s.skip(k), t.skip(k)),
{
    assert forall|i: int| 0 <= i < s.skip(k).len() implies same_fold(#[trigger] s.skip(k)[i], t.skip(k)[i]) by {
        assert(s.skip(k)[i] == s[i + k] && t.skip(k)[i] == t[i + k]);
        assert(same_fold(s[i + k], t[i + k]));
    }
}
pub proof fn lemma_u_end_fold(s: Seq<Seq<u8>>, t: Seq<Seq<u8>>, a: int)
    requires same_fold_seq(s, t), 0 <= a,
    ensures u_end(s, a) == u_end(t, a),
    decreases s.len() - a,
{
    if a < s.len() { lemma_fold_shapes(s[a], t[a]); if u_shaped(s[a]) { lemma_u_end_fold(s, t, a + 1); } }
}
pub proof fn lemma_tf_end_fold(s: Seq<Seq<u8>>, t: Seq<Seq<u8>>, a: int)
    requires same_fold_seq(s, t), 0 <= a,
    ensures tf_end(s, a) == tf_end(t, a),
    decreases s.len() - a,
{
    if a < s.len() { lemma_fold_shapes(s[a], t[a]); if s[a].len() != 1 { lemma_tf_end_fold(s, t, a + 1); } }
}
pub proof fn lemma_last_key_fold(s: Seq<Seq<u8>>, t: Seq<Seq<u8>>, a: int, e: int, mode: bool)
    requires same_fold_seq(s, t), 0 <= a, e <= s.len(),
    ensures last_key(s, a, e, mode) == last_key(t, a, e, mode),
    decreases e - a,
{
    if e > a { lemma_fold_shapes(s[e - 1], t[e - 1]); if !is_key(mode, s[e - 1]) { lemma_last_key_fold(s, t, a, e - 1, mode); } }
}
pub proof fn lemma_kv_fold_fold(s: Seq<Seq<u8>>, t: Seq<Seq<u8>>, a: int, e: int, mode: bool)
    requires same_fold_seq(s, t), 0 <= a, e <= s.len(),
    ensures kv_fold(s, a, e, mode) == kv_fold(t, a, e, mode),
    decreases e - a,
{
    if e > a {
        lemma_kv_fold_fold(s, t, a, e - 1, mode);
        lemma_fold_shapes(s[e - 1], t[e - 1]);
        lemma_last_key_fold(s, t, a, e - 1, mode);
        let p = last_key(s, a, e - 1, mode);
        if p >= 0 { lemma_last_key_bounds(s, a, e - 1, mode); lemma_fold_shapes(s[p], t[p]); }
    }
}
pub proof fn lemma_last_key_bounds(s: Seq<Seq<u8>>, a: int, e: int, mode: bool)
    requires 0 <= a, e <= s.len(),
    ensures last_key(s, a, e, mode) == -1 || a <= last_key(s, a, e, mode) < e,
    decreases e - a,
{
    if e > a && !is_key(mode, s[e - 1]) { lemma_last_key_bounds(s, a, e - 1, mode); }
}
pub proof fn lemma_u_first_key_fold(s: Seq<Seq<u8>>, t: Seq<Seq<u8>>, a: int, e: int)
    requires same_fold_seq(s, t), 0 <= a, e <= s.len(),
    ensures u_first_key(s, a, e) == u_first_key(t, a, e),
    decreases e - a,
{
    if e > a { lemma_u_first_key_fold(s, t, a, e - 1); lemma_fold_shapes(s[e - 1], t[e - 1]); }
}
pub proof fn lemma_u_first_key_bounds(s: Seq<Seq<u8>>, a: int, e: int)
    requires 0 <= a <= e,
    ensures a <= u_first_key(s, a, e) <= e,
    decreases e - a,
{
    if e > a { lemma_u_first_key_bounds(s, a, e - 1); }
}

pub open spec fn attr_mem(t: Seq<Seq<u8>>, a: int, e: int, x: Seq<u8>) -> bool { exists|i: int| a <= i < e && x == lower(#[trigger] t[i]) }
pub proof fn lemma_u_body_fold(s: Seq<Seq<u8>>, t: Seq<Seq<u8>>, v: UView)
    requires same_fold_seq(s, t),
    ensures
        u_end(s, 0) == u_end(t, 0),
        u_keys_ok(s, 0, u_end(s, 0)) == u_keys_ok(t, 0, u_end(t, 0)),
        u_expected(s, 0, u_end(s, 0), v) == u_expected(t, 0, u_end(t, 0), v),
{
    lemma_u_end_fold(s, t, 0);
    lemma_u_end_bounds(s, 0);
    let e = u_end(s, 0);
    assert(u_keys_ok(s, 0, e) == u_keys_ok(t, 0, e)) by {
        if u_keys_ok(s, 0, e) { assert forall|i: int| 0 <= i < e && (#[trigger] t[i]).len() == 2 implies is_ukey(t[i]) by { lemma_fold_shapes(s[i], t[i]); assert(s[i].len() == 2); } }
        if u_keys_ok(t, 0, e) { assert forall|i: int| 0 <= i < e && (#[trigger] s[i]).len() == 2 implies is_ukey(s[i]) by { lemma_fold_shapes(s[i], t[i]); assert(t[i].len() == 2); } }
    }
    lemma_kv_fold_fold(s, t, 0, e, true);
    lemma_u_first_key_fold(s, t, 0, e);
    lemma_u_first_key_bounds(s, 0, e);
    let fk = u_first_key(s, 0, e);
    assert forall|x: Seq<u8>| #[trigger] attr_mem(s, 0, fk, x) == attr_mem(t, 0, fk, x) by {
        if attr_mem(s, 0, fk, x) { let i = choose|i: int| 0 <= i < fk && x == lower(#[trigger] s[i]); assert(same_fold(s[i], t[i])); assert(x == lower(t[i])); }
        if attr_mem(t, 0, fk, x) { let i = choose|i: int| 0 <= i < fk && x == lower(#[trigger] t[i]); assert(same_fold(s[i], t[i])); assert(x == lower(s[i])); }
    }
    if u_expected(s, 0, e, v) {
        assert forall|x: Seq<u8>| v.attrs.contains(x) <==> (exists|i: int| 0 <= i < u_first_key(t, 0, e) && x == lower(#[trigger] t[i])) by { assert(attr_mem(s, 0, fk, x) == attr_mem(t, 0, fk, x)); }
    }
    if u_expected(t, 0, e, v) {
        assert forall|x: Seq<u8>| v.attrs.contains(x) <==> (exists|i: int| 0 <= i < u_first_key(s, 0, e) && x == lower(#[trigger] s[i])) by { assert(attr_mem(s, 0, fk, x) == attr_mem(t, 0, fk, x)); }
    }
}

pub proof fn lemma_t_body_fold(s: Seq<Seq<u8>>, t: Seq<Seq<u8>>, v: TView)
    requires same_fold_seq(s, t),
    ensures
        t_err(s) == t_err(t), t_end(s) == t_end(t),
        t_expected(s, v) == t_expected(t, v),
{
    if s.len() > 0 { lemma_fold_shapes(s[0], t[0]); }
    assert(t_has_lang(s) == t_has_lang(t));
    lemma_lid_case_invariant(s, t, true, v.lang);
    assert(t_f0(s) == t_f0(t));
    let f0 = t_f0(s);
    if 0 <= f0 < s.len() { lemma_fold_shapes(s[f0], t[f0]); }
    assert(t_has_fields(s) == t_has_fields(t));
    lemma_tf_end_fold(s, t, if f0 >= 0 { f0 } else { 0 });
    assert(t_end(s) == t_end(t));
    let e = t_end(s);
    if t_has_fields(s) { lemma_tf_end_bounds(s, f0); }
    assert(t_fields_ok(s) == t_fields_ok(t)) by {
        if t_has_fields(s) {
            if t_fields_ok(s) { assert forall|i: int| f0 <= i < e implies is_tkey(#[trigger] t[i]) || is_utype(t[i]) by { lemma_fold_shapes(s[i], t[i]); assert(is_tkey(s[i]) || is_utype(s[i])); } }
            if t_fields_ok(t) { assert forall|i: int| f0 <= i < e implies is_tkey(#[trigger] s[i]) || is_utype(s[i]) by { lemma_fold_shapes(s[i], t[i]); assert(is_tkey(t[i]) || is_utype(t[i])); } }
        } else {
            assert(e == f0);
        }
    }
    if 0 <= f0 && e <= s.len() { lemma_kv_fold_fold(s, t, f0, e, false); }
    else {
        // t_end outside the sequence cannot happen for f0 <= len; f0 = lid_end may exceed len only when t_has_lang is false (then 0)
        lemma_var_run_bounds(s, var_pos(s));
    }
}

pub open spec fn same_fold_opt(a: Option<Seq<Seq<u8>>>, b: Option<Seq<Seq<u8>>>) -> bool {
    (a is None && b is None) || (a is Some && b is Some && same_fold_seq(a->0, b->0))
}
pub open spec fn same_fold_ev(a: EView, b: EView) -> bool { same_fold_opt(a.u, b.u) && same_fold_opt(a.t, b.t) && same_fold_opt(a.x, b.x) }
pub proof fn lemma_x_fold(s: Seq<Seq<u8>>, t: Seq<Seq<u8>>, v: Seq<Seq<u8>>)
    requires same_fold_seq(s, t),
    ensures x_ok(s, 0) == x_ok(t, 0), x_expected(s, v) == x_expected(t, v),
{
    if x_ok(s, 0) { assert forall|i: int| 0 <= i < t.len() implies is_private(#[trigger] t[i]) by { lemma_fold_shapes(s[i], t[i]); assert(is_private(s[i])); } }
    if x_ok(t, 0) { assert forall|i: int| 0 <= i < s.len() implies is_private(#[trigger] s[i]) by { lemma_fold_shapes(s[i], t[i]); assert(is_private(t[i])); } }
    assert(lowered_run(s, 0, s.len() as int) =~= lowered_run(t, 0, t.len() as int)) by {
        assert forall|j: int| 0 <= j < s.len() implies lower(s[j]) == lower(t[j]) by { assert(same_fold(s[j], t[j])); }
    }
}
/// C09 (letter case) for the extension part: accepted alike, and the recognised bodies differ only in letter case
pub proof fn lemma_ext_parse_fold(s: Seq<Seq<u8>>, t: Seq<Seq<u8>>, ea: EView, eb: EView)
    requires same_fold_seq(s, t), same_fold_ev(ea, eb),
    ensures
        (ext_parse(s, ea) is Err) == (ext_parse(t, eb) is Err),
        ext_parse(s, ea) is Ok ==> same_fold_ev(ext_parse(s, ea)->Ok_0, ext_parse(t, eb)->Ok_0),
    decreases s.len(),
{
    if s.len() > 0 {
        lemma_fold_shapes(s[0], t[0]);
        let bs = s.skip(1); let bt = t.skip(1);
        lemma_fold_skip(s, t, 1);
        match singleton(s[0]) {
            Sing::Empty => { lemma_ext_parse_fold(bs, bt, ea, eb); }
            Sing::Multi => {}
            Sing::Other => {}
            Sing::U => {
                lemma_u_body_fold(bs, bt, arbitrary());
                let e = u_end(bs, 0);
                if !(ea.u is Some || !u_keys_ok(bs, 0, e)) && 0 <= e <= bs.len() {
                    lemma_fold_skip(bs, bt, e);
                    lemma_ext_parse_fold(bs.skip(e), bt.skip(e), EView { u: Some(bs), ..ea }, EView { u: Some(bt), ..eb });
                }
            }
            Sing::T => {
                lemma_t_body_fold(bs, bt, arbitrary());
                let e = t_end(bs);
                if !(ea.t is Some || t_err(bs)) && 0 <= e <= bs.len() {
                    lemma_fold_skip(bs, bt, e);
                    lemma_ext_parse_fold(bs.skip(e), bt.skip(e), EView { t: Some(bs), ..ea }, EView { t: Some(bt), ..eb });
                }
            }
            Sing::X => { lemma_x_fold(bs, bt, arbitrary()); }
        }
    }
}

// ---- L-INV (C09), order clauses: any listing of the attributes (order, repetition), any order of keywords / tfields with distinct
// keys, either order of -u- and -t-  (stated on lower-case subtags without `true` values; letter case is lemma_ext_parse_fold) ----
pub open spec fn attr_listing_ok(al: Seq<Seq<u8>>) -> bool { forall|i: int| 0 <= i < al.len() ==> is_utype(#[trigger] al[i]) && lower(al[i]) == al[i] }
pub open spec fn u_gen_body(al: Seq<Seq<u8>>, ku: Seq<tinystr::TinyAsciiStr<4>>, m: KvMap) -> Seq<Seq<u8>> { al + kv_toks(ku, m) }
pub open spec fn u_gen_toks(al: Seq<Seq<u8>>, ku: Seq<tinystr::TinyAsciiStr<4>>, m: KvMap) -> Seq<Seq<u8>> {
    if al.len() == 0 && ku.len() == 0 { Seq::empty() } else { seq![tok_u()] + u_gen_body(al, ku, m) }
}
/// the view a -u- body with attribute listing `al` and keyword listing `ku` stands for
pub open spec fn u_gen_view_ok(al: Seq<Seq<u8>>, ku: Seq<tinystr::TinyAsciiStr<4>>, m: KvMap, v: UView) -> bool {
    &&& strictly_sorted(v.attrs)
    &&& forall|x: Seq<u8>| v.attrs.contains(x) <==> al.contains(x)
    &&& v.kw == kv_restrict(ku, m)
}
pub proof fn lemma_ext_u_gen(al: Seq<Seq<u8>>, ku: Seq<tinystr::TinyAsciiStr<4>>, m: KvMap, v: UView, rest: Seq<Seq<u8>>, ev: EView)
    requires attr_listing_ok(al), kv_keys_ok(ku, m, true), u_gen_view_ok(al, ku, m, v), al.len() + ku.len() > 0, starts_singleton(rest), ev.u is None,
    ensures
        ext_parse(u_gen_toks(al, ku, m) + rest, ev) == ext_parse(rest, EView { u: Some(u_gen_body(al, ku, m) + rest), ..ev }),
        u_expected(u_gen_body(al, ku, m) + rest, 0, u_end(u_gen_body(al, ku, m) + rest, 0), v),
{
    let kv = kv_toks(ku, m);
    let ub = u_gen_body(al, ku, m);
    let body = ub + rest;
    let t = u_gen_toks(al, ku, m) + rest;
    let na = al.len() as int;
    let n = ub.len() as int;
    lemma_kv_toks_len(ku, m);
    assert(t[0] == tok_u());
    assert(singleton(t[0]) == Sing::U);
    assert(t.skip(1) =~= body);
    assert forall|i: int| 0 <= i < na implies #[trigger] body[i] == al[i] by {}
    assert forall|i: int| 0 <= i < kv.len() implies #[trigger] body[na + i] == kv[i] by {}
    assert forall|i: int| 0 <= i < n implies u_shaped(#[trigger] body[i]) && (body[i].len() == 2 ==> is_ukey(body[i])) && (i < na ==> body[i].len() != 2) by {
        if i < na { assert(body[i] == al[i]); assert(is_utype(al[i])); }
        else { assert(body[na + (i - na)] == kv[i - na]); lemma_kv_toks_shape(ku, m, true, i - na); }
    }
    if n < body.len() { assert(body[n] == rest[0]); assert(!u_shaped(body[n])); }
    lemma_u_end(body, 0, n);
    assert(u_keys_ok(body, 0, n));
    assert(body.skip(n) =~= rest);
    if kv.len() > 0 { lemma_kv_toks_shape(ku, m, true, 0); assert(body[na + 0] == kv[0]); assert(body[na].len() == 2); }
    if kv.len() == 0 { assert(na == n); }
    lemma_u_first_key(body, na, n);
    assert forall|x: Seq<u8>| v.attrs.contains(x) <==> (exists|i: int| 0 <= i < u_first_key(body, 0, n) && x == lower(#[trigger] body[i])) by {
        if v.attrs.contains(x) {
            assert(al.contains(x));
            let i = choose|i: int| 0 <= i < al.len() && al[i] == x;
            assert(body[i] == x && lower(body[i]) == x);
        }
        if exists|i: int| 0 <= i < na && x == lower(#[trigger] body[i]) {
            let i = choose|i: int| 0 <= i < na && x == lower(#[trigger] body[i]);
            assert(body[i] == al[i]);
            assert(al[i] == x);
            assert(al.contains(x));
        }
    }
    assert forall|i: int| 0 <= i < na implies !is_key(true, #[trigger] body[i]) by {}
    lemma_kv_fold_region(body, 0, na, ku, m, true);
    assert(na + kv.len() == n);
}

pub open spec fn t_gen_body(tv: TView, kt: Seq<tinystr::TinyAsciiStr<4>>, m: KvMap) -> Seq<Seq<u8>> {
    (if tv.has_lang { lid_toks(tv.lang) } else { Seq::<Seq<u8>>::empty() }) + kv_toks(kt, m)
}
pub open spec fn t_gen_toks(tv: TView, kt: Seq<tinystr::TinyAsciiStr<4>>, m: KvMap) -> Seq<Seq<u8>> {
    if !tv.has_lang && kt.len() == 0 { Seq::empty() } else { seq![tok_t()] + t_gen_body(tv, kt, m) }
}
pub proof fn lemma_ext_t_gen(tv: TView, kt: Seq<tinystr::TinyAsciiStr<4>>, m: KvMap, rest: Seq<Seq<u8>>, ev: EView)
    requires
        tv.has_lang ==> lid_view_ok(tv.lang), kv_keys_ok(kt, m, false), tv.fields == kv_restrict(kt, m),
        tv.has_lang || kt.len() > 0, starts_singleton(rest), ev.t is None,
    ensures
        ext_parse(t_gen_toks(tv, kt, m) + rest, ev) == ext_parse(rest, EView { t: Some(t_gen_body(tv, kt, m) + rest), ..ev }),
        t_expected(t_gen_body(tv, kt, m) + rest, tv),
{
    let kv = kv_toks(kt, m);
    let lt = if tv.has_lang { lid_toks(tv.lang) } else { Seq::<Seq<u8>>::empty() };
    let tb = t_gen_body(tv, kt, m);
    let body = tb + rest;
    let t = t_gen_toks(tv, kt, m) + rest;
    let f0 = lt.len() as int;
    let n = tb.len() as int;
    lemma_kv_toks_len(kt, m);
    assert(t[0] == tok_t());
    assert(singleton(t[0]) == Sing::T);
    assert(t.skip(1) =~= body);
    assert(body =~= lt + (kv + rest));
    assert forall|i: int| 0 <= i < kv.len() implies #[trigger] body[f0 + i] == kv[i] by {}
    if n < body.len() { assert(body[n] == rest[0]); }
    let after = kv + rest;
    if after.len() > 0 {
        if kv.len() > 0 { lemma_kv_toks_shape(kt, m, false, 0); assert(after[0] == kv[0]); lemma_tkey_is_stopper(after[0]); }
        else { assert(after[0] == rest[0]); lemma_tkey_is_stopper(after[0]); }
    }
    if tv.has_lang {
        lemma_lid_roundtrip_suffix(tv.lang, after);
        assert(lang_shaped(body[0]));
        assert(t_f0(body) == f0);
    } else {
        lemma_kv_toks_shape(kt, m, false, 0);
        assert(body[0] == kv[0]);
        lemma_tkey_is_stopper(body[0]);
        assert(t_f0(body) == 0);
    }
    assert forall|i: int| f0 <= i < n implies (#[trigger] body[i]).len() != 1 && (is_tkey(body[i]) || is_utype(body[i])) by {
        assert(body[f0 + (i - f0)] == kv[i - f0]);
        lemma_kv_toks_shape(kt, m, false, i - f0);
    }
    lemma_tf_end(body, f0, n);
    if kv.len() > 0 {
        lemma_kv_toks_shape(kt, m, false, 0);
        assert(body[f0 + 0] == kv[0]);
        assert(t_has_fields(body));
    } else {
        assert(n == f0);
        if f0 < body.len() { assert(body[f0] == rest[0]); assert(!is_tkey(body[f0])); }
        assert(!t_has_fields(body));
    }
    assert(t_end(body) == n);
    if f0 < body.len() { lemma_tkey_is_stopper(body[f0]); }
    assert(!t_err(body));
    assert(body.skip(n) =~= rest);
    lemma_kv_fold_region(body, f0, f0, kt, m, false);
    assert(f0 + kv.len() == n);
}

/// C09 (order clauses): whichever of -u- / -t- comes first, however the attributes are listed (any order, any repetition) and
/// in whichever order the keywords / tfields (distinct keys) are listed, the recogniser accepts and prescribes the SAME views
pub proof fn lemma_ext_order_invariant(u_first: bool, tv: TView, kt: Seq<tinystr::TinyAsciiStr<4>>, mt: KvMap,
                                       al: Seq<Seq<u8>>, ku: Seq<tinystr::TinyAsciiStr<4>>, mu: KvMap, uv: UView, xv: Seq<Seq<u8>>)
    requires
        tv.has_lang ==> lid_view_ok(tv.lang), kv_keys_ok(kt, mt, false), tv.fields == kv_restrict(kt, mt),
        attr_listing_ok(al), kv_keys_ok(ku, mu, true), u_gen_view_ok(al, ku, mu, uv), x_view_wf(xv),
    ensures ({
        let tt = t_gen_toks(tv, kt, mt); let ut = u_gen_toks(al, ku, mu); let xt = x_toks(xv);
        let toks = if u_first { ut + (tt + xt) } else { tt + (ut + xt) };
        let r = ext_parse(toks, ev0());
        &&& r is Ok
        &&& (r->Ok_0.t is None) == (tt.len() == 0)
        &&& (r->Ok_0.u is None) == (ut.len() == 0)
        &&& (r->Ok_0.x is None) == (xv.len() == 0)
        &&& (r->Ok_0.t is Some ==> t_expected(r->Ok_0.t->0, tv))
        &&& (r->Ok_0.u is Some ==> u_expected(r->Ok_0.u->0, 0, u_end(r->Ok_0.u->0, 0), uv))
        &&& (r->Ok_0.x is Some ==> x_expected(r->Ok_0.x->0, xv))
    }),
{
    let tt = t_gen_toks(tv, kt, mt); let ut = u_gen_toks(al, ku, mu); let xt = x_toks(xv);
    let has_t = tv.has_lang || kt.len() > 0;
    let has_u = al.len() + ku.len() > 0;
    assert(starts_singleton(xt)) by { if xv.len() > 0 { assert(xt[0] == tok_x()); } }
    if u_first {
        let r1 = tt + xt;
        assert(starts_singleton(r1)) by { if has_t { assert(r1[0] == tok_t()); } else { assert(r1 =~= xt); } }
        let e1 = if has_u { EView { u: Some(u_gen_body(al, ku, mu) + r1), ..ev0() } } else { ev0() };
        if has_u { lemma_ext_u_gen(al, ku, mu, uv, r1, ev0()); } else { assert(ut + r1 =~= r1); }
        let e2 = if has_t { EView { t: Some(t_gen_body(tv, kt, mt) + xt), ..e1 } } else { e1 };
        if has_t { lemma_ext_t_gen(tv, kt, mt, xt, e1); } else { assert(r1 =~= xt); }
        lemma_ext_x(xv, e2);
    } else {
        let r1 = ut + xt;
        assert(starts_singleton(r1)) by { if has_u { assert(r1[0] == tok_u()); } else { assert(r1 =~= xt); } }
        let e1 = if has_t { EView { t: Some(t_gen_body(tv, kt, mt) + r1), ..ev0() } } else { ev0() };
        if has_t { lemma_ext_t_gen(tv, kt, mt, r1, ev0()); } else { assert(tt + r1 =~= r1); }
        let e2 = if has_u { EView { u: Some(u_gen_body(al, ku, mu) + xt), ..e1 } } else { e1 };
        if has_u { lemma_ext_u_gen(al, ku, mu, uv, xt, e1); } else { assert(r1 =~= xt); }
        lemma_ext_x(xv, e2);
    }
}
