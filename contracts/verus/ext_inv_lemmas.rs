// ---- L-INV for the extension grammar (C09 at the Locale level): letter case and separator choice ---------------------------
// Two subtag sequences that differ only in letter case are accepted alike by ext_parse and are prescribed the same values.

pub proof fn lemma_fold_shapes(a: Seq<u8>, b: Seq<u8>)
    requires same_fold(a, b),
    ensures
        a.len() == b.len(), lower(a) == lower(b),
        u_shaped(a) == u_shaped(b), is_utype(a) == is_utype(b), is_ukey(a) == is_ukey(b), is_tkey(a) == is_tkey(b),
        lang_shaped(a) == lang_shaped(b), is_private(a) == is_private(b), singleton(a) == singleton(b),
        is_key(true, a) == is_key(true, b), is_key(false, a) == is_key(false, b),
        is_language(a) == is_language(b),
{
    lemma_fold_bytes(a, b);
    lemma_fold_classes(a, b);
    assert(all_alnum(a) == all_alnum(b)) by {
        if all_alnum(a) { assert forall|i: int| 0 <= i < b.len() implies alnum(#[trigger] b[i]) by { assert(alnum(a[i])); } }
        if all_alnum(b) { assert forall|i: int| 0 <= i < a.len() implies alnum(#[trigger] a[i]) by { assert(alnum(b[i])); } }
    }
    assert(all_alpha(a) == all_alpha(b)) by {
        if all_alpha(a) { assert forall|i: int| 0 <= i < b.len() implies alpha(#[trigger] b[i]) by { assert(alpha(a[i])); } }
        if all_alpha(b) { assert forall|i: int| 0 <= i < a.len() implies alpha(#[trigger] a[i]) by { assert(alpha(b[i])); } }
    }
    if a.len() == 2 { assert(alnum(a[0]) == alnum(b[0]) && alpha(a[1]) == alpha(b[1]) && alpha(a[0]) == alpha(b[0]) && digit(a[1]) == digit(b[1])); }
    if a.len() == 1 { assert(lower_b(a[0]) == lower_b(b[0])); }
}
pub proof fn lemma_fold_skip(s: Seq<Seq<u8>>, t: Seq<Seq<u8>>, k: int)
    requires same_fold_seq(s, t), 0 <= k <= s.len(),
    ensures same_fold_seq(s.skip(k), t.skip(k)),
{
    assert forall|i: int| 0 <= i < s.skip(k).len() implies same_fold(#[trigger] s.skip(k)[i], t.skip(k)[i]) by {
        assert(s.skip(k)[i] == s[i + k] && t.skip(k)[i] == t[i + k]);
        assert(same_fold(s[i + k], t[i + k]));
    }
}
pub proof fn lemma_u_end_fold(s: Seq<Seq<u8>>, t: Seq<Seq<u8>>, a: int)
    requires same_fold_seq(s, t), 0 <= a,
    ensures u_end(s, a) == u_end(t, a),
    decreases s.len() - a,
{
    if a < s.len() { lemma_fold_shapes(s[a], t[a]); if u_shaped(s[a]) { lemma_u_end_fold(s, t, a + 1); } }
}
pub proof fn lemma_tf_end_fold(s: Seq<Seq<u8>>, t: Seq<Seq<u8>>, a: int)
    requires same_fold_seq(s, t), 0 <= a,
    ensures tf_end(s, a) == tf_end(t, a),
    decreases s.len() - a,
{
    if a < s.len() { lemma_fold_shapes(s[a], t[a]); if s[a].len() != 1 { lemma_tf_end_fold(s, t, a + 1); } }
}
pub proof fn lemma_last_key_fold(s: Seq<Seq<u8>>, t: Seq<Seq<u8>>, a: int, e: int, mode: bool)
    requires same_fold_seq(s, t), 0 <= a, e <= s.len(),
    ensures last_key(s, a, e, mode) == last_key(t, a, e, mode),
    decreases e - a,
{
    if e > a { lemma_fold_shapes(s[e - 1], t[e - 1]); if !is_key(mode, s[e - 1]) { lemma_last_key_fold(s, t, a, e - 1, mode); } }
}
pub proof fn lemma_kv_fold_fold(s: Seq<Seq<u8>>, t: Seq<Seq<u8>>, a: int, e: int, mode: bool)
    requires same_fold_seq(s, t), 0 <= a, e <= s.len(),
    ensures kv_fold(s, a, e, mode) == kv_fold(t, a, e, mode),
    decreases e - a,
{
    if e > a {
        lemma_kv_fold_fold(s, t, a, e - 1, mode);
        lemma_fold_shapes(s[e - 1], t[e - 1]);
        lemma_last_key_fold(s, t, a, e - 1, mode);
        let p = last_key(s, a, e - 1, mode);
        if p >= 0 { lemma_last_key_bounds(s, a, e - 1, mode); lemma_fold_shapes(s[p], t[p]); }
    }
}
pub proof fn lemma_last_key_bounds(s: Seq<Seq<u8>>, a: int, e: int, mode: bool)
    requires 0 <= a, e <= s.len(),
    ensures last_key(s, a, e, mode) == -1 || a <= last_key(s, a, e, mode) < e,
    decreases e - a,
{
    if e > a && !is_key(mode, s[e - 1]) { lemma_last_key_bounds(s, a, e - 1, mode); }
}
pub proof fn lemma_u_first_key_fold(s: Seq<Seq<u8>>, t: Seq<Seq<u8>>, a: int, e: int)
    requires same_fold_seq(s, t), 0 <= a, e <= s.len(),
    ensures u_first_key(s, a, e) == u_first_key(t, a, e),
    decreases e - a,
{
    if e > a { lemma_u_first_key_fold(s, t, a, e - 1); lemma_fold_shapes(s[e - 1], t[e - 1]); }
}
pub proof fn lemma_u_first_key_bounds(s: Seq<Seq<u8>>, a: int, e: int)
    requires 0 <= a <= e,
    ensures a <= u_first_key(s, a, e) <= e,
    decreases e - a,
{
    if e > a { lemma_u_first_key_bounds(s, a, e - 1); }
}

pub open spec fn attr_mem(t: Seq<Seq<u8>>, a: int, e: int, x: Seq<u8>) -> bool { exists|i: int| a <= i < e && x == lower(#[trigger] t[i]) }
pub proof fn lemma_u_body_fold(s: Seq<Seq<u8>>, t: Seq<Seq<u8>>, v: UView)
    requires same_fold_seq(s, t),
    ensures
        u_end(s, 0) == u_end(t, 0),
        u_keys_ok(s, 0, u_end(s, 0)) == u_keys_ok(t, 0, u_end(t, 0)),
        u_expected(s, 0, u_end(s, 0), v) == u_expected(t, 0, u_end(t, 0), v),
{
    lemma_u_end_fold(s, t, 0);
    lemma_u_end_bounds(s, 0);
    let e = u_end(s, 0);
    assert(u_keys_ok(s, 0, e) == u_keys_ok(t, 0, e)) by {
        if u_keys_ok(s, 0, e) { assert forall|i: int| 0 <= i < e && (#[trigger] t[i]).len() == 2 implies is_ukey(t[i]) by { lemma_fold_shapes(s[i], t[i]); assert(s[i].len() == 2); } }
        if u_keys_ok(t, 0, e) { assert forall|i: int| 0 <= i < e && (#[trigger] s[i]).len() == 2 implies is_ukey(s[i]) by { lemma_fold_shapes(s[i], t[i]); assert(t[i].len() == 2); } }
    }
    lemma_kv_fold_fold(s, t, 0, e, true);
    lemma_u_first_key_fold(s, t, 0, e);
    lemma_u_first_key_bounds(s, 0, e);
    let fk = u_first_key(s, 0, e);
    assert forall|x: Seq<u8>| #[trigger] attr_mem(s, 0, fk, x) == attr_mem(t, 0, fk, x) by {
        if attr_mem(s, 0, fk, x) { let i = choose|i: int| 0 <= i < fk && x == lower(#[trigger] s[i]); assert(same_fold(s[i], t[i])); assert(x == lower(t[i])); }
        if attr_mem(t, 0, fk, x) { let i = choose|i: int| 0 <= i < fk && x == lower(#[trigger] t[i]); assert(same_fold(s[i], t[i])); assert(x == lower(s[i])); }
    }
    if u_expected(s, 0, e, v) {
        assert forall|x: Seq<u8>| v.attrs.contains(x) <==> (exists|i: int| 0 <= i < u_first_key(t, 0, e) && x == lower(#[trigger] t[i])) by { assert(attr_mem(s, 0, fk, x) == attr_mem(t, 0, fk, x)); }
    }
    if u_expected(t, 0, e, v) {
        assert forall|x: Seq<u8>| v.attrs.contains(x) <==> (exists|i: int| 0 <= i < u_first_key(s, 0, e) && x == lower(#[trigger] s[i])) by { assert(attr_mem(s, 0, fk, x) == attr_mem(t, 0, fk, x)); }
    }
}

pub proof fn lemma_t_body_fold(s: Seq<Seq<u8>>, t: Seq<Seq<u8>>, v: TView)
    requires same_fold_seq(s, t),
    ensures
        t_err(s) == t_err(t), t_end(s) == t_end(t),
        t_expected(s, v) == t_expected(t, v),
{
    if s.len() > 0 { lemma_fold_shapes(s[0], t[0]); }
    assert(t_has_lang(s) == t_has_lang(t));
    lemma_lid_case_invariant(s, t, true, v.lang);
    assert(t_f0(s) == t_f0(t));
    let f0 = t_f0(s);
    if 0 <= f0 < s.len() { lemma_fold_shapes(s[f0], t[f0]); }
    assert(t_has_fields(s) == t_has_fields(t));
    lemma_tf_end_fold(s, t, if f0 >= 0 { f0 } else { 0 });
    assert(t_end(s) == t_end(t));
    let e = t_end(s);
    if t_has_fields(s) { lemma_tf_end_bounds(s, f0); }
    assert(t_fields_ok(s) == t_fields_ok(t)) by {
        if t_has_fields(s) {
            if t_fields_ok(s) { assert forall|i: int| f0 <= i < e implies is_tkey(#[trigger] t[i]) || is_utype(t[i]) by { lemma_fold_shapes(s[i], t[i]); assert(is_tkey(s[i]) || is_utype(s[i])); } }
            if t_fields_ok(t) { assert forall|i: int| f0 <= i < e implies is_tkey(#[trigger] s[i]) || is_utype(s[i]) by { lemma_fold_shapes(s[i], t[i]); assert(is_tkey(t[i]) || is_utype(t[i])); } }
        } else {
            assert(e == f0);
        }
    }
    if 0 <= f0 && e <= s.len() { lemma_kv_fold_fold(s, t, f0, e, false); }
    else {
        // t_end outside the sequence cannot happen for f0 <= len; f0 = lid_end may exceed len only when t_has_lang is false (then 0)
        lemma_var_run_bounds(s, var_pos(s));
    }
}

pub open spec fn same_fold_opt(a: Option<Seq<Seq<u8>>>, b: Option<Seq<Seq<u8>>>) -> bool {
    (a is None && b is None) || (a is Some && b is Some && same_fold_seq(a->0, b->0))
}
pub open spec fn same_fold_ev(a: EView, b: EView) -> bool { same_fold_opt(a.u, b.u) && same_fold_opt(a.t, b.t) && same_fold_opt(a.x, b.x) }
pub proof fn lemma_x_fold(s: Seq<Seq<u8>>, t: Seq<Seq<u8>>, v: Seq<Seq<u8>>)
    requires same_fold_seq(s, t),
    ensures x_ok(s, 0) == x_ok(t, 0), x_expected(s, v) == x_expected(t, v),
{
    if x_ok(s, 0) { assert forall|i: int| 0 <= i < t.len() implies is_private(#[trigger] t[i]) by { lemma_fold_shapes(s[i], t[i]); assert(is_private(s[i])); } }
    if x_ok(t, 0) { assert forall|i: int| 0 <= i < s.len() implies is_private(#[trigger] s[i]) by { lemma_fold_shapes(s[i], t[i]); assert(is_private(t[i])); } }
    assert(lowered_run(s, 0, s.len() as int) =~= lowered_run(t, 0, t.len() as int)) by {
        assert forall|j: int| 0 <= j < s.len() implies lower(s[j]) == lower(t[j]) by { assert(same_fold(s[j], t[j])); }
    }
}
/// C09 (letter case) for the extension part: accepted alike, and the recognised bodies differ only in letter case
pub proof fn lemma_ext_parse_fold(s: Seq<Seq<u8>>, t: Seq<Seq<u8>>, ea: EView, eb: EView)
    requires same_fold_seq(s, t), same_fold_ev(ea, eb),
    ensures
        (ext_parse(s, ea) is Err) == (ext_parse(t, eb) is Err),
        ext_parse(s, ea) is Ok ==> same_fold_ev(ext_parse(s, ea)->Ok_0, ext_parse(t, eb)->Ok_0),
    decreases s.len(),
{
    if s.len() > 0 {
        lemma_fold_shapes(s[0], t[0]);
        let bs = s.skip(1); let bt = t.skip(1);
        lemma_fold_skip(s, t, 1);
        match singleton(s[0]) {
            Sing::Empty => { lemma_ext_parse_fold(bs, bt, ea, eb); }
            Sing::Multi => {}
            Sing::Other => {}
            Sing::U => {
                lemma_u_body_fold(bs, bt, arbitrary());
                let e = u_end(bs, 0);
                if !(ea.u is Some || !u_keys_ok(bs, 0, e)) && 0 <= e <= bs.len() {
                    lemma_fold_skip(bs, bt, e);
                    lemma_ext_parse_fold(bs.skip(e), bt.skip(e), EView { u: Some(bs), ..ea }, EView { u: Some(bt), ..eb });
                }
            }
            Sing::T => {
                lemma_t_body_fold(bs, bt, arbitrary());
                let e = t_end(bs);
                if !(ea.t is Some || t_err(bs)) && 0 <= e <= bs.len() {
                    lemma_fold_skip(bs, bt, e);
                    lemma_ext_parse_fold(bs.skip(e), bt.skip(e), EView { t: Some(bs), ..ea }, EView { t: Some(bt), ..eb });
                }
            }
            Sing::X => { lemma_x_fold(bs, bt, arbitrary()); }
        }
    }
}
