#!/bin/sh
# Offline set-up: builds tinystr 0.7.6 (from the cargo registry cache) with Verus's pinned
# toolchain so that `verus --extern tinystr=...rlib` can link the real crate's signatures.
set -e
cd "$(dirname "$0")"
export CARGO_NET_OFFLINE=true
B="$(pwd)/.build/tinydep"
mkdir -p "$B"
( cd tinydep && cargo +1.98.1-x86_64-unknown-linux-gnu build --offline --locked --target-dir "$B" )
ls "$B"/debug/deps/libtinystr-*.rlib
