//! C20 observation program: prints, one line per observation, the result of every feature-independent operation of the public API
//! (parsing, serialising, canonicalize, comparing, hashing-equality, matching, mutating, conversions) on a fixed bounded input space.
//! It uses no API that exists only under a feature.  character_direction is observed only where C20 / C14 say it must not
//! depend on the configuration (identifiers that carry a script).
//! usage: featdiff dump            -> all observations
//!        featdiff one <hex line>  -> the observation(s) whose key is the given text (replay)
use std::fmt::Write as _;
use unic_langid_impl::{CharacterDirection, LanguageIdentifier};
use unic_locale_impl::extensions::ExtensionsMap;
use unic_locale_impl::Locale;

fn esc(v: &[u8]) -> String {
    let mut s = String::new();
    for &b in v { if (0x20..0x7f).contains(&b) && b != b'\\' { s.push(b as char) } else { let _ = write!(s, "\\x{:02x}", b); } }
    s
}
fn hash64<T: std::hash::Hash>(x: &T) -> u64 { use std::hash::Hasher; let mut h = std::collections::hash_map::DefaultHasher::new(); x.hash(&mut h); h.finish() }
fn dir(d: CharacterDirection) -> &'static str { match d { CharacterDirection::LTR => "LTR", CharacterDirection::RTL => "RTL", _ => "TTB" } }

const LANGS: [&str; 12] = ["en", "und", "iw", "in", "sr", "zh", "he", "ar", "ji", "mo", "az", "root"];
const SCRIPTS: [&str; 5] = ["", "Latn", "Cyrl", "Hans", "Arab"];
const REGIONS: [&str; 7] = ["", "US", "RS", "TW", "IL", "IR", "419"];
const VARIANTS: [&str; 3] = ["", "macos", "1996-macos"];
const EXTS: [&str; 5] = ["", "-u-ca-buddhist", "-t-es-h0-hybrid", "-u-foo-nu-latn-x-priv", "-x-a-b"];
const ALPHA: [&str; 30] = ["en", "EN", "e", "eng", "engl", "engli", "abcdefgh", "abcdefghi", "Latn", "lATN", "US", "us", "419", "41", "4199", "1996", "1a2b", "macos",
    "u", "t", "x", "a", "ca", "h0", "true", "", "-", "e\u{7f}", "\u{e9}", "u1"];

fn ids() -> Vec<String> {
    let mut out = vec![];
    for l in LANGS { for s in SCRIPTS { for r in REGIONS { for v in VARIANTS {
        let mut t = l.to_string();
        for p in [s, r, v] { if !p.is_empty() { t.push('-'); t.push_str(p); } }
        out.push(t);
    }}}}
    out
}
fn raw_inputs() -> Vec<Vec<u8>> {
    let mut out: Vec<Vec<u8>> = vec![];
    for h in ["en", "und", "EN_latn", "en-t-h0"] {
        out.push(h.as_bytes().to_vec());
        for a in ALPHA { out.push(format!("{}-{}", h, a).into_bytes());
            for b in ALPHA { out.push(format!("{}-{}-{}", h, a, b).into_bytes()); } }
    }
    out.push(vec![0xff, 0xfe]); out.push(vec![]); out.push(b"en\0US".to_vec());
    out
}
fn obs_parse(key: &[u8], out: &mut Vec<String>) {
    let k = esc(key);
    match LanguageIdentifier::from_bytes(key) {
        Ok(l) => out.push(format!("lid.parse {} => Ok {} dir-if-script={}", k, l, if l.script.is_some() { dir(l.character_direction()) } else { "-" })),
        Err(e) => out.push(format!("lid.parse {} => Err {:?}", k, e)),
    }
    match Locale::from_bytes(key) {
        Ok(l) => out.push(format!("loc.parse {} => Ok {} ext-empty={} dir-if-script={}", k, l, l.extensions.is_empty(), if l.id.script.is_some() { dir(l.id.character_direction()) } else { "-" })),
        Err(e) => out.push(format!("loc.parse {} => Err {:?}", k, e)),
    }
    out.push(format!("lid.canonicalize {} => {:?}", k, unic_langid_impl::canonicalize(key)));
    out.push(format!("loc.canonicalize {} => {:?}", k, unic_locale_impl::canonicalize(key)));
    if let Ok(s) = std::str::from_utf8(key) {
        out.push(format!("lid.from_str {} => {:?}", k, s.parse::<LanguageIdentifier>().map(|l| l.to_string()).map_err(|e| format!("{:?}", e))));
        out.push(format!("loc.from_str {} => {:?}", k, s.parse::<Locale>().map(|l| l.to_string()).map_err(|e| format!("{:?}", e))));
        out.push(format!("ext.from_str {} => {:?}", k, s.parse::<ExtensionsMap>().map(|l| l.to_string()).map_err(|e| format!("{:?}", e))));
    }
}
/// full product of a few values per field (every combination of present / absent script, region and variants occurs on both sides)
fn ids_product() -> Vec<String> {
    let mut out = vec![];
    for l in ["en", "und", "sr", "he"] { for s in ["", "Latn", "Cyrl"] { for r in ["", "US", "RS"] { for v in VARIANTS {
        let mut t = l.to_string();
        for p in [s, r, v] { if !p.is_empty() { t.push('-'); t.push_str(p); } }
        out.push(t);
    }}}}
    out
}
fn obs_pairs(out: &mut Vec<String>) {
    let mut pool: Vec<(String, LanguageIdentifier)> = ids().into_iter().step_by(5).filter_map(|s| s.parse().ok().map(|l| (s, l))).collect();
    pool.extend(ids_product().into_iter().filter_map(|s| s.parse().ok().map(|l| (format!("{} (product pool)", s), l))));
    for (sa, a) in &pool {
        let mut m = String::new(); let mut c = String::new();
        for (_, b) in &pool {
            for (ra, rb) in [(false, false), (true, false), (false, true), (true, true)] { m.push(if a.matches(b, ra, rb) { '1' } else { '0' }); }
            c.push(match a.cmp(b) { std::cmp::Ordering::Less => '<', std::cmp::Ordering::Equal => '=', _ => '>' });
            c.push(if a == b { 'e' } else { 'n' });
            c.push(if hash64(a) == hash64(b) { 'h' } else { 'd' });
        }
        out.push(format!("lid.matches-row {} => {}", sa, m));
        out.push(format!("lid.cmp-eq-hash-row {} => {}", sa, c));
        out.push(format!("lid.eq-str {} => {}{}", sa, a == &sa.as_str(), a == &"en-US"));
    }
    let mut lpool: Vec<(String, Locale)> = ids().into_iter().step_by(11).flat_map(|s| EXTS.iter().map(move |e| format!("{}{}", s, e))).filter_map(|s| s.parse().ok().map(|l| (s, l))).collect();
    for i in ["en", "en-Latn-US", "en-Latn-US-macos", "en-US-macos", "sr-Cyrl-RS", "sr-RS", "und-Latn-US", "und"] { for e in EXTS {
        if let Ok(l) = format!("{}{}", i, e).parse::<Locale>() { lpool.push((format!("{}{} (product pool)", i, e), l)); }
    } }
    for (sa, a) in &lpool {
        let mut m = String::new(); let mut c = String::new();
        for (_, b) in &lpool {
            for (ra, rb) in [(false, false), (true, false), (false, true), (true, true)] { m.push(if a.matches(b, ra, rb) { '1' } else { '0' }); }
            c.push(match a.cmp(b) { std::cmp::Ordering::Less => '<', std::cmp::Ordering::Equal => '=', _ => '>' });
            c.push(if a == b { 'e' } else { 'n' });
        }
        out.push(format!("loc.matches-row {} => {}", sa, m));
        out.push(format!("loc.cmp-eq-row {} => {}", sa, c));
    }
}
fn obs_mut(out: &mut Vec<String>) {
    use unic_langid_impl::subtags::Variant;
    for s in ids().into_iter().step_by(7) {
        for e in EXTS {
            let key = format!("{}{}", s, e);
            let Ok(mut l) = key.parse::<Locale>() else { continue };
            let mut log = String::new();
            let v: Vec<Variant> = ["valencia", "macos", "valencia"].iter().map(|x| x.parse().unwrap()).collect();
            l.id.set_variants(&v); let _ = write!(log, "{};", l);
            let _ = write!(log, "{:?};", l.id.has_variant(v[0]));
            let _ = write!(log, "{:?};", l.extensions.unicode.set_keyword("HC", &["H12", "true"])); let _ = write!(log, "{};", l);
            let _ = write!(log, "{:?};", l.extensions.unicode.set_keyword("h!", &["h12"]));
            let _ = write!(log, "{:?};", l.extensions.unicode.keyword("hc").map(|i| i.collect::<Vec<_>>().join("+")));
            let _ = write!(log, "{:?};", l.extensions.unicode.keyword_keys().collect::<Vec<_>>());
            let _ = write!(log, "{:?};", l.extensions.unicode.set_attribute("Zed")); let _ = write!(log, "{:?};", l.extensions.unicode.has_attribute("ZED"));
            let _ = write!(log, "{:?};", l.extensions.unicode.attributes().collect::<Vec<_>>());
            let _ = write!(log, "{:?};", l.extensions.transform.set_tlang("DE-at".parse().unwrap())); let _ = write!(log, "{};", l);
            let _ = write!(log, "{:?};", l.extensions.transform.set_tfield("M0", &["Names", "true"])); let _ = write!(log, "{:?};", l.extensions.transform.tfield_keys().collect::<Vec<_>>());
            let _ = write!(log, "{:?};", l.extensions.transform.tfield("m0").map(|i| i.collect::<Vec<_>>().join("+")));
            let _ = write!(log, "{:?};", l.extensions.private.add_tag("Zz9")); let _ = write!(log, "{:?};", l.extensions.private.tags().collect::<Vec<_>>());
            let _ = write!(log, "{};", l);
            let back: Result<Locale, _> = l.to_string().parse(); let _ = write!(log, "rt={};", back.map(|b| b == l).unwrap_or(false));
            let _ = write!(log, "{:?};", l.extensions.unicode.remove_keyword("hc")); let _ = write!(log, "{:?};", l.extensions.unicode.remove_attribute("zed"));
            let _ = write!(log, "{:?};", l.extensions.transform.remove_tfield("m0")); l.extensions.transform.clear_tlang(); let _ = write!(log, "{:?};", l.extensions.private.remove_tag("zz9"));
            l.id.clear_variants(); let _ = write!(log, "{};", l);
            let (lang, script, region, variants, ext) = l.clone().into_parts();
            let _ = write!(log, "parts={:?}/{:?}/{:?}/{:?}/{};", lang, script, region, variants, ext);
            let l2 = Locale::from_parts(lang, script, region, &variants, ext.parse::<ExtensionsMap>().ok()); let _ = write!(log, "fp={};", l2 == l);
            let li: LanguageIdentifier = l.clone().into(); let _ = write!(log, "into={};from={};", li, Locale::from(li.clone()));
            let (a, b, c, d) = li.clone().into_parts(); let _ = write!(log, "lfp={};", LanguageIdentifier::from_parts(a, b, c, &d) == li);
            out.push(format!("mut-script {} => {}", key, log));
        }
    }
}
fn all() -> Vec<String> {
    let mut out = vec![];
    for i in ids() { for e in EXTS { obs_parse(format!("{}{}", i, e).as_bytes(), &mut out); } }
    for i in ids().into_iter().step_by(3) { obs_parse(i.to_uppercase().replace('-', "_").as_bytes(), &mut out); }
    for r in raw_inputs() { obs_parse(&r, &mut out); }
    obs_pairs(&mut out);
    obs_mut(&mut out);
    out
}
fn main() {
    let args: Vec<String> = std::env::args().collect();
    match args.get(1).map(|s| s.as_str()) {
        Some("dump") => { let mut s = String::new(); for l in all() { s.push_str(&l); s.push('\n'); } print!("{}", s); }
        Some("one") => {
            let key = args.get(2).cloned().unwrap_or_default();
            for l in all() { if l.split(" => ").next() == Some(key.as_str()) { println!("{}", l); } }
        }
        _ => { eprintln!("usage: featdiff dump | one <key>"); std::process::exit(2); }
    }
}
